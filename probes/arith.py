"""Plugin: fork-free floor division / modulo by a positive concrete divisor, and a fork-free truncating division model."""
import z3
from crosshair.libimpl.builtinslib import SymbolicInt
from crosshair.tracers import NoTracing
from crosshair.statespace import context_statespace
STATS = {'floordiv': 0, 'mod': 0, 'tzd': 0}
_orig_floordiv = SymbolicInt.__floordiv__
_orig_mod = SymbolicInt.__mod__

def _conc_pos(o):
    return type(o) is int and o > 0

def _floordiv(self, other):
    with NoTracing():
        if _conc_pos(other):
            STATS['floordiv'] += 1
            return SymbolicInt(self.var / z3.IntVal(other))      # z3 Int div: floor for positive divisor
    return _orig_floordiv(self, other)

def _mod(self, other):
    with NoTracing():
        if _conc_pos(other):
            STATS['mod'] += 1
            return SymbolicInt(self.var % z3.IntVal(other))      # in [0, other): Python semantics
    return _orig_mod(self, other)

def tzd(x, y):
    """Model of _towards_zero_division for ints (exact truncation)."""
    with NoTracing():
        if isinstance(x, SymbolicInt) and _conc_pos(y):
            STATS['tzd'] += 1
            v, d = x.var, z3.IntVal(y)
            return SymbolicInt(z3.If(v >= 0, v / d, -((-v) / d)))
    if type(x) is int and type(y) is int:
        q = abs(x) // abs(y)
        return q if (x >= 0) == (y >= 0) else -q
    q = abs(x) // abs(y)
    return q if (x >= 0) == (y >= 0) else -q

def install():
    SymbolicInt.__floordiv__ = _floordiv
    SymbolicInt.__mod__ = _mod
