from symx import *
import bitops; bitops.install()
import arith; arith.install()
from pyoda_time.utility import _csharp_compatibility as cc
from pyoda_time.utility._preconditions import _Preconditions
register_patch(cc._towards_zero_division, arith.tzd)
def _throw(param_name, value, lo, hi):
    raise ValueError("out of range")
register_patch(_Preconditions._throw_argument_out_of_range_exception, _throw)
class Stream:
    def __init__(self, buf=None): self.buf = list(buf or []); self.pos = 0
    def write(self, b):
        for x in b: self.buf.append(x)
        return len(b)
    def read(self, n=-1):
        if n < 0: n = len(self.buf) - self.pos
        out = self.buf[self.pos:self.pos + n]; self.pos += len(out)
        return out
