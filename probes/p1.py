from pyoda_time.calendars._gregorian_year_month_day_calculator import _GregorianYearMonthDayCalculator
from pyoda_time.utility._csharp_compatibility import _towards_zero_division
_G = _GregorianYearMonthDayCalculator()

def ref_start(year: int) -> int:
    y = year - 1
    return 365 * y + y // 4 - y // 100 + y // 400 - 719162

def tzd(x: int, y: int) -> int:
    """
    pre: -10**6 < x < 10**6
    pre: 0 < y < 1000
    post: _ == (x // y if x >= 0 else -((-x) // y))
    """
    return _towards_zero_division(x, y)

def start_of_year(year: int) -> int:
    """
    pre: -9999 <= year <= 10000
    post: _ == ref_start(year)
    """
    return _G._calculate_start_of_year_days(year)
