import sys
from symx import *
import bitops; bitops.install()
from pyoda_time.time_zones.io._date_time_zone_writer import _DateTimeZoneWriter
from pyoda_time.time_zones.io._date_time_zone_reader import _DateTimeZoneReader
from pyoda_time.utility import _csharp_compatibility as cc
from pyoda_time.utility._preconditions import _Preconditions
def _tzd(x, y):
    q = abs(x) // abs(y)
    return q if (x >= 0) == (y >= 0) else -q
register_patch(cc._towards_zero_division, _tzd)
def _throw(param_name, value, lo, hi):
    raise ValueError("out of range")
register_patch(_Preconditions._throw_argument_out_of_range_exception, _throw)

class Stream:
    """list-backed binary stream stub: keeps written bytes symbolic"""
    def __init__(self): self.buf = []; self.pos = 0
    def write(self, b):
        for x in b: self.buf.append(x)
        return len(b)
    def read(self, n=-1):
        if n < 0: n = len(self.buf) - self.pos
        out = self.buf[self.pos:self.pos + n]; self.pos += len(out)
        return out   # list of ints: supports [0], truthiness, iteration

def count_rt(n):
    s = Stream(); w = _DateTimeZoneWriter._ctor(s, None)
    try:
        w.write_count(n)
    except ValueError:
        return not (0 <= n <= 2**31 - 1)
    r = _DateTimeZoneReader._ctor(s, None)
    return r.read_count() == n and s.pos == len(s.buf) and 0 <= n <= 2**31-1

def signed_rt(n):
    assume(-2**31 <= n < 2**31)
    s = Stream(); w = _DateTimeZoneWriter._ctor(s, None)
    w.write_signed_count(n)
    r = _DateTimeZoneReader._ctor(s, None)
    return r.read_signed_count() == n and s.pos == len(s.buf)

def millis_rt(n):
    s = Stream(); w = _DateTimeZoneWriter._ctor(s, None)
    try:
        w.write_milliseconds(n)
    except ValueError:
        return not (-86400000 < n < 86400000)
    r = _DateTimeZoneReader._ctor(s, None)
    return r.read_milliseconds() == n and s.pos == len(s.buf)

for name, h, types in [('count', count_rt, {'n': int}), ('signed', signed_rt, {'n': int}), ('millis', millis_rt, {'n': int})]:
    print(name, explore(h, types, timeout=120), bitops.STATS, flush=True)
