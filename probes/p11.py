import sys
from symx import *
import bitops; bitops.install()
from pyoda_time import Duration, Instant, Offset, PyodaConstants, DateTimeZone
from pyoda_time.time_zones import ZoneInterval
from pyoda_time._local_instant import _LocalInstant
from pyoda_time.utility import _csharp_compatibility as cc
from pyoda_time.utility._preconditions import _Preconditions
def _tzd(x, y):
    q = abs(x) // abs(y)
    return q if (x >= 0) == (y >= 0) else -q
register_patch(cc._towards_zero_division, _tzd)
def _throw(param_name, value, lo, hi):
    raise ValueError("out of range")
register_patch(_Preconditions._throw_argument_out_of_range_exception, _throw)
NPD = PyodaConstants.NANOSECONDS_PER_DAY

class SymZone(DateTimeZone):
    def __init__(self, intervals):
        super().__init__("sym", False, Offset.min_value, Offset.max_value)
        self.intervals = intervals
    def get_zone_interval(self, instant):
        for iv in self.intervals:
            if instant in iv:
                return iv
        raise AssertionError("uncovered")

class LDT:
    def __init__(self, li): self.li = li
    def _to_local_instant(self): return self.li

def ns(i):  # total ns of instant
    return i._time_since_epoch.to_nanoseconds()

def harness(d1, n1, d2, n2, o0, o1, o2, ld, ln):
    lo, hi = Instant._MIN_DAYS + 2, Instant._MAX_DAYS - 2
    for d in (d1, d2, ld): assume(lo <= d <= hi)
    for n in (n1, n2, ln): assume(0 <= n < NPD)
    for o in (o0, o1, o2): assume(-64800 <= o <= 64800)
    t1 = Instant._ctor(days=d1, nano_of_day=n1); t2 = Instant._ctor(days=d2, nano_of_day=n2)
    T1, T2 = d1 * NPD + n1, d2 * NPD + n2
    O = [o0 * 10**9, o1 * 10**9, o2 * 10**9]
    # assumption A: the middle interval is longer than any offset change at its ends (no triple overlap)
    assume(T2 - T1 >= 3 * NPD)
    ivs = [ZoneInterval(name="a", start=None, end=t1, wall_offset=Offset.from_seconds(o0), savings=Offset.zero),
           ZoneInterval(name="b", start=t1, end=t2, wall_offset=Offset.from_seconds(o1), savings=Offset.zero),
           ZoneInterval(name="c", start=t2, end=None, wall_offset=Offset.from_seconds(o2), savings=Offset.zero)]
    z = SymZone(ivs)
    L = ld * NPD + ln
    li = _LocalInstant._ctor(days=ld, nano_of_day=ln)
    m = z.map_local(LDT(li))
    # reference: which intervals contain L locally
    c = [L < T1 + O[0], T1 + O[1] <= L < T2 + O[1], T2 + O[2] <= L]
    cnt = (1 if c[0] else 0) + (1 if c[1] else 0) + (1 if c[2] else 0)
    if m.count != cnt: return False
    idx = [i for i in range(3) if c[i]]
    if cnt >= 1:
        return m.early_interval is ivs[idx[0]] and m.late_interval is ivs[idx[-1]]
    # gap: before = last interval whose local end <= L ; after = next one
    k = 0 if L < T2 + O[1] else 1   # gap lies between k and k+1
    return m.early_interval is ivs[k] and m.late_interval is ivs[k + 1]

types = {k: int for k in ['d1','n1','d2','n2','o0','o1','o2','ld','ln']}
if __name__ == "__main__": print(explore(harness, types, timeout=float(sys.argv[1]) if len(sys.argv) > 1 else 120), bitops.STATS)
