import p11
from pyoda_time._local_instant import _LocalInstant
from p11 import *
cex = {'d1': -4371220, 'n1': 1, 'd2': -4371220, 'n2': 2000000000, 'o0': -1, 'o1': -2, 'o2': -1, 'ld': -4371220, 'ln': 0}
d1,n1,d2,n2,o0,o1,o2,ld,ln = [cex[k] for k in ['d1','n1','d2','n2','o0','o1','o2','ld','ln']]
t1 = Instant._ctor(days=d1, nano_of_day=n1); t2 = Instant._ctor(days=d2, nano_of_day=n2)
ivs = [ZoneInterval(name="a", start=None, end=t1, wall_offset=Offset.from_seconds(o0), savings=Offset.zero),
       ZoneInterval(name="b", start=t1, end=t2, wall_offset=Offset.from_seconds(o1), savings=Offset.zero),
       ZoneInterval(name="c", start=t2, end=None, wall_offset=Offset.from_seconds(o2), savings=Offset.zero)]
z = SymZone(ivs)
li = _LocalInstant._ctor(days=ld, nano_of_day=ln)
m = z.map_local(LDT(li))
print(m.count, m.early_interval.name, m.late_interval.name)
print(harness(**cex))
