import sys
from symx import *
import bitops; bitops.install()
import fmtint; fmtint.install()
from pyoda_time import Offset
from pyoda_time.text import OffsetPattern
from pyoda_time.utility import _csharp_compatibility as cc
from pyoda_time.utility._preconditions import _Preconditions
def _tzd(x, y):
    q = abs(x) // abs(y)
    return q if (x >= 0) == (y >= 0) else -q
register_patch(cc._towards_zero_division, _tzd)
def _throw(param_name, value, lo, hi):
    raise ValueError("out of range")
register_patch(_Preconditions._throw_argument_out_of_range_exception, _throw)
from pyoda_time.text._parse_result import ParseResult
from pyoda_time.text._unparsable_value_error import UnparsableValueError
_orig_fiv = ParseResult._for_invalid_value.__func__
def _fiv(cls, cursor_or_exception_provider, *args):
    if callable(cursor_or_exception_provider):
        return _orig_fiv(cls, cursor_or_exception_provider, *args)
    return cls._ctor(exception_provider=lambda: UnparsableValueError("stub"), continue_with_multiple=True)
register_patch(_orig_fiv, _fiv)
pat = {'g': OffsetPattern.general_invariant, 'f': OffsetPattern.create_with_invariant_culture("+HH:mm:ss"), 'm': OffsetPattern.create_with_invariant_culture("-HH:mm")}[sys.argv[1]]
def h(secs):
    assume(-64800 <= secs <= 64800)
    if sys.argv[1] == 'm': assume(secs % 60 == 0)
    o = Offset.from_seconds(secs)
    text = pat.format(o)
    r = pat.parse(text)
    return r.success and r.value.seconds == secs
print(explore(h, {'secs': int}, timeout=float(sys.argv[2])), fmtint.STATS)
