import sys
from symx import *
import bitops; bitops.install()
from pyoda_time import Duration, Instant, Offset, PyodaConstants, DateTimeZoneProviders
from pyoda_time.calendars._year_month_day_calculator import _YearMonthDayCalculator
from pyoda_time.utility import _csharp_compatibility as cc
from pyoda_time.utility._preconditions import _Preconditions
def _tzd(x, y):
    q = abs(x) // abs(y)
    return q if (x >= 0) == (y >= 0) else -q
register_patch(cc._towards_zero_division, _tzd)
def _throw(param_name, value, lo, hi):
    raise ValueError("out of range")
register_patch(_Preconditions._throw_argument_out_of_range_exception, _throw)
register_patch(_YearMonthDayCalculator._get_start_of_year_in_days, lambda self, year: self._calculate_start_of_year_days(year))
NPD = PyodaConstants.NANOSECONDS_PER_DAY
zid = sys.argv[1]
zone = DateTimeZoneProviders.tzdb[zid]._time_zone     # uncached precalculated zone
tail = zone._PrecalculatedDateTimeZone__tail_zone
tail_start = zone._PrecalculatedDateTimeZone__tail_zone_start
print(zid, tail_start, tail._StandardDaylightAlternatingMap__dst_recurrence, tail._StandardDaylightAlternatingMap__standard_recurrence)
ts_days = tail_start._days_since_epoch
def h(d, n):
    assume(ts_days + 1 <= d <= Instant._MAX_DAYS); assume(0 <= n < NPD)
    t = Instant._ctor(days=d, nano_of_day=n)
    iv = tail.get_zone_interval(t)
    ok = iv._raw_start <= t < iv._raw_end
    # abutment: the interval found at iv.end starts exactly there (when iv has an end)
    if iv.has_end:
        nxt = tail.get_zone_interval(iv._raw_end)
        ok = ok and nxt._raw_start == iv._raw_end and not (nxt.wall_offset == iv.wall_offset and nxt.name == iv.name)
    return ok
print(explore(h, {'d': int, 'n': int}, timeout=float(sys.argv[2]), per_path_timeout=30))
