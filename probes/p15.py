import sys, datetime
from symx import *
import bitops; bitops.install()
from pyoda_time import Duration, Instant, Offset, PyodaConstants, DateTimeZoneProviders
from pyoda_time.calendars._year_month_day_calculator import _YearMonthDayCalculator
from pyoda_time.utility import _csharp_compatibility as cc
from pyoda_time.utility._preconditions import _Preconditions
def _tzd(x, y):
    q = abs(x) // abs(y)
    return q if (x >= 0) == (y >= 0) else -q
register_patch(cc._towards_zero_division, _tzd)
def _throw(param_name, value, lo, hi):
    raise ValueError("out of range")
register_patch(_Preconditions._throw_argument_out_of_range_exception, _throw)
register_patch(_YearMonthDayCalculator._get_start_of_year_in_days, lambda self, year: self._calculate_start_of_year_days(year))
NPD = PyodaConstants.NANOSECONDS_PER_DAY
zone = DateTimeZoneProviders.tzdb[sys.argv[1]]._time_zone
tail = zone._PrecalculatedDateTimeZone__tail_zone
dst = tail._StandardDaylightAlternatingMap__dst_recurrence
yo = dst.year_offset
# reference: last Sunday of March 01:00 (hard-coded for Europe/London probe)
def ref_days(y):
    # days since epoch of March 31 of year y (proleptic Gregorian), then back to Sunday
    yy = y - 1
    jan1 = 365 * yy + yy // 4 - yy // 100 + yy // 400 - 719162
    leap = 1 if (y % 4 == 0 and (y % 100 != 0 or y % 400 == 0)) else 0
    mar31 = jan1 + 31 + 28 + leap + 30
    dow = (mar31 + 3) % 7     # 0 = Monday ... 6 = Sunday  (1970-01-01 is Thursday=3)
    back = (dow + 1) % 7      # days back to Sunday
    return mar31 - back
def occ(y):
    assume(-9998 <= y <= 9999)
    li = yo._get_occurrence_for_year(y)
    return li._days_since_epoch == ref_days(y) and li._nanosecond_of_day == 3600 * 10**9
print('occ', explore(occ, {'y': int}, timeout=float(sys.argv[2]), per_path_timeout=30))
def period(y):
    assume(-9998 <= y <= 9599)
    a = yo._get_occurrence_for_year(y); b = yo._get_occurrence_for_year(y + 400)
    return b._days_since_epoch - a._days_since_epoch == 146097 and a._nanosecond_of_day == b._nanosecond_of_day
print('period', explore(period, {'y': int}, timeout=float(sys.argv[2]), per_path_timeout=30))
