import sys
from symx import *
import bitops; bitops.install()
from pyoda_time.calendars._julian_year_month_day_calculator import _JulianYearMonthDayCalculator
from pyoda_time.calendars._coptic_year_month_day_calculator import _CopticYearMonthDayCalculator
from pyoda_time.calendars._islamic_year_month_day_calculator import _IslamicYearMonthDayCalculator
from pyoda_time.calendars import IslamicLeapYearPattern, IslamicEpoch
from pyoda_time.calendars._year_start_cache_entry import _YearStartCacheEntry
from pyoda_time._year_month_day import _YearMonthDay
from pyoda_time.utility import _csharp_compatibility as cc
from pyoda_time.utility._preconditions import _Preconditions
def _tzd(x, y):
    q = abs(x) // abs(y)
    return q if (x >= 0) == (y >= 0) else -q
register_patch(cc._towards_zero_division, _tzd)
def _throw(param_name, value, lo, hi):
    raise ValueError("out of range")
register_patch(_Preconditions._throw_argument_out_of_range_exception, _throw)

calc = {'J': _JulianYearMonthDayCalculator(), 'C': _CopticYearMonthDayCalculator(), 'I': _IslamicYearMonthDayCalculator(IslamicLeapYearPattern.BASE16, IslamicEpoch.CIVIL)}[sys.argv[1]]
lo, hi = calc._min_year, calc._max_year

class AnySlot:
    """Symbolic pre-state of the 1024-slot cache: whatever slot is read holds `entry` (an arbitrary valid entry for that slot)."""
    def __init__(self, entry): self.entry = entry; self.writes = []
    def __getitem__(self, idx): return self.entry
    def __setitem__(self, idx, e): self.writes.append((idx, e)); self.entry = e

def cache_step(year, y0, use_invalid):
    assume(lo - 1 <= year <= hi + 1); assume(lo - 1 <= y0 <= hi + 1)
    assume((y0 & 1023) == (year & 1023))          # the slot the query reads was last filled for y0 (or never)
    if use_invalid:
        entry = _YearStartCacheEntry(_YearStartCacheEntry._INVALID_ENTRY_YEAR, 0)
    else:
        entry = _YearStartCacheEntry(y0, calc._calculate_start_of_year_days(y0))
    calc._YearMonthDayCalculator__year_cache = AnySlot(entry)
    got = calc._get_start_of_year_in_days(year)
    return got == calc._calculate_start_of_year_days(year)

M = calc._get_months_in_year(1)
def add_months(y, m, d, n):
    assume(lo <= y <= hi); assume(1 <= m <= M); assume(1 <= d <= calc._get_days_in_month(y, m)); assume(-200000 <= n <= 200000)
    tot = y * M + (m - 1) + n
    ey, em = tot // M, tot % M + 1
    try:
        r = calc._add_months(_YearMonthDay._ctor(year=y, month=m, day=d), n)
    except OverflowError:
        return not (lo <= ey <= hi)
    return lo <= ey <= hi and r._year == ey and r._month == em and r._day == min(d, calc._get_days_in_month(ey, em))

print('cache_step', explore(cache_step, {'year': int, 'y0': int, 'use_invalid': bool}, timeout=120))
print('add_months', explore(add_months, {'y': int, 'm': int, 'd': int, 'n': int}, timeout=300))
