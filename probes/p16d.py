import sys, collections
from symx import *
import symx
import bitops; bitops.install()
import arith; arith.install()
from pyoda_time.calendars._julian_year_month_day_calculator import _JulianYearMonthDayCalculator
from pyoda_time._year_month_day import _YearMonthDay
from pyoda_time.utility import _csharp_compatibility as cc
register_patch(cc._towards_zero_division, arith.tzd)
calc = _JulianYearMonthDayCalculator()
lo, hi = calc._min_year, calc._max_year
M = 12
import traceback
sites = collections.Counter()
from crosshair.statespace import StateSpace
orig_fork = StateSpace.smt_fork
def smt_fork(self, *a, **kw):
    st = traceback.extract_stack(limit=12)
    key = ' <- '.join(f"{f.name}:{f.lineno}" for f in reversed(st[:-1]) if 'crosshair' not in f.filename and 'symx' not in f.filename)[:160]
    sites[key] += 1
    return orig_fork(self, *a, **kw)
StateSpace.smt_fork = smt_fork
def add_months(y, m, d, n):
    assume(lo <= y <= hi); assume(1 <= m <= M); assume(1 <= d <= calc._get_days_in_month(y, m)); assume(-12 <= n <= 12)
    try:
        r = calc._add_months(_YearMonthDay._ctor(year=y, month=m, day=d), n)
    except OverflowError:
        return True
    return True
print('add_months', explore(add_months, {'y': int, 'm': int, 'd': int, 'n': int}, timeout=60))
print(bitops.STATS, arith.STATS)
