import sys
from common import *
from pyoda_time import Duration, Instant
from pyoda_time.time_zones.io._date_time_zone_reader import _DateTimeZoneReader
from pyoda_time.time_zones._zone_year_offset import _ZoneYearOffset
from pyoda_time.time_zones._fixed_date_time_zone import _FixedDateTimeZone
from pyoda_time.utility import InvalidPyodaDataError
N = int(sys.argv[1])
def mk(bs, n):
    assume(0 <= n <= N)
    for b in bs: assume(0 <= b <= 255)
    return _DateTimeZoneReader._ctor(Stream(bs[:n]), ("a", "b"))
def yo(b0, b1, b2, b3, b4, b5, b6, b7, n):
    r = mk([b0, b1, b2, b3, b4, b5, b6, b7][:N], n)
    try:
        _ZoneYearOffset.read(r)
    except InvalidPyodaDataError:
        pass
    return True      # any other exception type escapes -> reported as cex by the driver
def trans(b0, b1, b2, b3, b4, b5, b6, b7, n):
    r = mk([b0, b1, b2, b3, b4, b5, b6, b7][:N], n)
    try:
        r.read_zone_interval_transition(Instant.from_unix_time_seconds(0))
    except InvalidPyodaDataError:
        pass
    return True
T = {k: int for k in ['b0','b1','b2','b3','b4','b5','b6','b7','n']}
print('yo', explore(yo, T, timeout=150))
print('trans', explore(trans, T, timeout=150))
