import sys
from common import *
from pyoda_time import Duration, Instant, PyodaConstants
from pyoda_time.utility._tick_arithmetic import _TickArithmetic
TPD = PyodaConstants.TICKS_PER_DAY
def ticks(t):
    assume(-2**63 <= t < 2**63)
    d, tod = _TickArithmetic.ticks_to_days_and_tick_of_day(t)
    return d * TPD + tod == t and 0 <= tod < TPD
print('ticks', explore(ticks, {'t': int}, timeout=100))
import datetime
def td(days, secs, us):
    assume(-999999999 <= days <= 999999999); assume(0 <= secs < 86400); assume(0 <= us < 10**6)
    x = datetime.timedelta(days=days, seconds=secs, microseconds=us)
    try:
        d = Duration.from_timedelta(x)
    except ValueError:
        return False
    y = d.to_timedelta()
    return y == x and d.to_nanoseconds() == ((days * 86400 + secs) * 10**6 + us) * 1000
print('timedelta', explore(td, {'days': int, 'secs': int, 'us': int}, timeout=100))
