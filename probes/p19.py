import sys
from common import *
from pyoda_time import CalendarSystem, LocalDate, IsoDayOfWeek
from pyoda_time.calendars import WeekYearRules
from pyoda_time._year_month_day_calendar import _YearMonthDayCalendar
from pyoda_time.calendars._year_month_day_calculator import _YearMonthDayCalculator
register_patch(_YearMonthDayCalculator._get_start_of_year_in_days, lambda self, year: self._calculate_start_of_year_days(year))
cal = {'coptic': CalendarSystem.coptic, 'julian': CalendarSystem.julian}[sys.argv[1]]
calc = cal._year_month_day_calculator
rule = WeekYearRules.iso
LO, HI = int(sys.argv[2]), int(sys.argv[3])
def wk(y, m, d):
    assume(LO <= y <= HI); assume(1 <= m <= calc._get_months_in_year(y)); assume(1 <= d <= calc._get_days_in_month(y, m))
    date = LocalDate._ctor(year_month_day_calendar=_YearMonthDayCalendar._ctor(year=y, month=m, day=d, calendar_ordinal=cal._ordinal))
    wy = rule.get_week_year(date); w = rule.get_week_of_week_year(date)
    n = rule.get_weeks_in_week_year(wy, cal)
    days = calc._get_days_since_epoch(date._year_month_day)
    dow = (days + 3) % 7 + 1
    back = rule.get_local_date(wy, w, IsoDayOfWeek(dow), cal)
    return 1 <= w <= n and back == date and y - 1 <= wy <= y + 1
print(explore(wk, {'y': int, 'm': int, 'd': int}, timeout=float(sys.argv[4]), per_path_timeout=20))
