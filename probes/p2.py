from crosshair import register_patch
from pyoda_time.calendars._gregorian_year_month_day_calculator import _GregorianYearMonthDayCalculator
from pyoda_time.utility import _csharp_compatibility as cc

def _tzd(x, y):
    if isinstance(x, int) and isinstance(y, int):
        q = abs(x) // abs(y)
        return q if (x >= 0) == (y >= 0) else -q
    raise TypeError
register_patch(cc._towards_zero_division, _tzd)
_G = _GregorianYearMonthDayCalculator()

def ref_start(year: int) -> int:
    y = year - 1
    return 365 * y + y // 4 - y // 100 + y // 400 - 719162

def start_of_year(year: int) -> int:
    """
    pre: -9999 <= year <= 10000
    post: _ == ref_start(year)
    """
    return _G._calculate_start_of_year_days(year)

def leap(year: int) -> bool:
    """
    pre: -9999 <= year <= 10000
    post: _ == (year % 4 == 0 and (year % 100 != 0 or year % 400 == 0))
    """
    return _G._is_leap_year(year)
