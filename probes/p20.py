import sys
from common import *
from pyoda_time import IsoDayOfWeek
from pyoda_time.calendars._simple_week_year_rule import _SimpleWeekYearRule

class SymCalc:
    """Abstract calendar: arbitrary start of year Y (any integer), arbitrary year lengths in [353, 385] for Y-1, Y, Y+1."""
    def __init__(self, Y, S, lens): self.Y, self.S, self.lens = Y, S, lens
    def _get_days_in_year(self, y):
        return self.lens[0] if y == self.Y - 1 else self.lens[1] if y == self.Y else self.lens[2]
    def _get_start_of_year_in_days(self, y):
        if y == self.Y - 1: return self.S - self.lens[0]
        if y == self.Y: return self.S
        if y == self.Y + 1: return self.S + self.lens[1]
        if y == self.Y + 2: return self.S + self.lens[1] + self.lens[2]
        raise AssertionError("year outside stub window")

def dow(x): return (x + 3) % 7 + 1
def start(min_days, first, S, l0, l1, l2):
    assume(1 <= min_days <= 7); assume(1 <= first <= 7)
    assume(-5 * 10**6 <= S <= 5 * 10**6)
    for l in (l0, l1, l2): assume(353 <= l <= 385)
    rule = _SimpleWeekYearRule(min_days, IsoDayOfWeek(first), False)
    c = SymCalc(2000, S, [l0, l1, l2])
    W = rule._SimpleWeekYearRule__get_week_year_days_since_epoch(c, 2000)
    W1 = rule._SimpleWeekYearRule__get_week_year_days_since_epoch(c, 2001)
    in_first_week = W + 7 - S       # days of week 1 that lie in calendar year Y
    ok = dow(W) == first and S - 6 <= W <= S + 6 and in_first_week >= min_days and (W - 7 + 7 - S < min_days)
    return ok and dow(W1) == first and (W1 - W) % 7 == 0 and W1 > W
print(explore(start, {'min_days': int, 'first': int, 'S': int, 'l0': int, 'l1': int, 'l2': int}, timeout=200))
