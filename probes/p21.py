import sys
from common import *
from pyoda_time import CalendarSystem
from pyoda_time.calendars._year_month_day_calculator import _YearMonthDayCalculator
from pyoda_time.calendars._hebrew_scriptural_calculator import _HebrewScripturalCalculator as HS
from pyoda_time.calendars._badi_year_month_day_calculator import _BadiYearMonthDayCalculator as BD
from pyoda_time.calendars._persian_year_month_day_calculator import _PersianAstronomicalYearMonthDayCalculator as PA
from pyoda_time.calendars._year_start_cache_entry import _YearStartCacheEntry
register_patch(_YearMonthDayCalculator._get_start_of_year_in_days, lambda self, year: self._calculate_start_of_year_days(year))
# Hebrew: bypass global cache
register_patch(HS._HebrewScripturalCalculator__get_or_populate_cache.__func__, lambda cls, year: cls._HebrewScripturalCalculator__compute_cache_entry(year))
# tables: bytes -> tuple so that symbolic indices stay symbolic
BD.year_info_raw = tuple(BD.year_info_raw)
PA._PersianAstronomicalYearMonthDayCalculator__astronomical_leap_year_bits = tuple(PA._PersianAstronomicalYearMonthDayCalculator__astronomical_leap_year_bits)
name = sys.argv[1]; T = float(sys.argv[2])
cal = CalendarSystem.for_id(name)
calc = cal._year_month_day_calculator
for k in list(vars(calc)):
    v = getattr(calc, k)
    if isinstance(v, list) and len(v) > 100: setattr(calc, k, tuple(v))
lo, hi = calc._min_year, calc._max_year
if len(sys.argv) > 3: lo, hi = int(sys.argv[3]), int(sys.argv[4])
def fresh():
    with NoTracing():
        HS._HebrewScripturalCalculator__YEAR_CACHE.update(_YearStartCacheEntry._create_cache())
def split(year, doy):
    fresh()
    assume(lo <= year <= hi)
    assume(1 <= doy <= calc._get_days_in_year(year))
    ymd = calc._get_year_month_day_from_year_and_day_of_year(year, doy)
    y, m, d = ymd._year, ymd._month, ymd._day
    return (y == year and 1 <= m <= calc._get_months_in_year(year) and 1 <= d <= calc._get_days_in_month(year, m)
            and calc._get_days_from_start_of_year_to_start_of_month(year, m) + d == doy)
def yearlen(year):
    fresh()
    assume(lo <= year <= hi - 1)
    return calc._get_start_of_year_in_days(year + 1) - calc._get_start_of_year_in_days(year) == calc._get_days_in_year(year)
dlo, dhi = calc._get_start_of_year_in_days(lo), calc._get_start_of_year_in_days(hi) - 1
def getyear(days):
    fresh()
    assume(dlo <= days <= dhi)
    y, z = calc._get_year(days)
    s = calc._get_start_of_year_in_days(y)
    return lo <= y <= hi and s <= days and z == days - s and z < calc._get_days_in_year(y)
for nm, h, types in [('yearlen', yearlen, {'year': int}), ('split', split, {'year': int, 'doy': int}), ('getyear', getyear, {'days': int})]:
    print(name, nm, explore(h, types, timeout=T, per_path_timeout=20), flush=True)
