"""C04 recurrence lemma with an abstract yearly rule; and precalc binary search on a real zone."""
import sys
from common import *
from pyoda_time import Duration, Instant, Offset, PyodaConstants, DateTimeZoneProviders, LocalTime
from pyoda_time._local_instant import _LocalInstant
from pyoda_time.calendars._year_month_day_calculator import _YearMonthDayCalculator
from pyoda_time.time_zones._zone_recurrence import _ZoneRecurrence
from pyoda_time.time_zones._zone_year_offset import _ZoneYearOffset
from pyoda_time.time_zones._transition_mode import _TransitionMode
from pyoda_time import CalendarSystem
register_patch(_YearMonthDayCalculator._get_start_of_year_in_days, lambda self, year: self._calculate_start_of_year_days(year))
NPD = PyodaConstants.NANOSECONDS_PER_DAY
iso = CalendarSystem.iso._year_month_day_calculator
mode = sys.argv[1]

class AbsYearOffset:
    """Abstract yearly rule: occurrence(y) = start_of_year(y) + off[y] days + nanos, off symbolic per year in [0, 364]."""
    def __init__(self, Y, offs, nanos, mode): self.Y, self.offs, self.nanos, self._mode = Y, offs, nanos, mode
    @property
    def mode(self): return self._mode
    def _get_rule_offset(self, standard_offset, savings):
        return _ZoneYearOffset._get_rule_offset(self, standard_offset, savings)
    def _get_occurrence_for_year(self, year):
        k = year - self.Y
        if not (-1 <= k <= 2): raise AssertionError("outside window")
        off = self.offs[0] if k == -1 else self.offs[1] if k == 0 else self.offs[2] if k == 1 else self.offs[3]
        return _LocalInstant._ctor(days=iso._calculate_start_of_year_days(year) + off, nano_of_day=self.nanos)

def nxt(Y, o0, o1, o2, o3, nanos, d, n, std, sav, prev):
    assume(1800 <= Y <= 2400)
    for o in (o0, o1, o2, o3): assume(0 <= o <= 364)
    assume(0 <= nanos < NPD); assume(0 <= n < NPD)
    for s in (std, sav, prev): assume(-64800 <= s <= 64800)
    assume(-64800 <= std + sav <= 64800); assume(-64800 <= std + prev <= 64800)
    yo = AbsYearOffset(Y, [o0, o1, o2, o3], nanos, _TransitionMode.WALL)
    rec = _ZoneRecurrence.__new__(_ZoneRecurrence)
    rec._ZoneRecurrence__name = "x"; rec._ZoneRecurrence__savings = Offset.from_seconds(sav); rec._ZoneRecurrence__year_offset = yo
    rec._ZoneRecurrence__from_year = -2147483648; rec._ZoneRecurrence__to_year = 2147483647
    rec._ZoneRecurrence__min_local_instant = _LocalInstant.before_min_value(); rec._ZoneRecurrence__max_local_instant = _LocalInstant.after_max_value()
    # instant somewhere inside year Y (UTC), well away from the window edges
    ys = iso._calculate_start_of_year_days(Y)
    assume(ys + 2 <= d <= ys + 362)
    t = Instant._ctor(days=d, nano_of_day=n)
    r = rec._next(t, Offset.from_seconds(std), Offset.from_seconds(prev))
    rule = (std + prev) * 10**9
    T = lambda k, o: (iso._calculate_start_of_year_days(Y + k) + o) * NPD + nanos - rule    # transition instants in ns
    tn = d * NPD + n
    cands = [T(-1, o0), T(0, o1), T(1, o2), T(2, o3)]
    later = [c for c in cands if c > tn]
    expect = later[0]     # candidates are increasing in k (years apart)
    got = r._instant._time_since_epoch.to_nanoseconds()
    return got == expect and r._new_offset.seconds == std + sav

if mode == 'next':
    types = {k: int for k in ['Y','o0','o1','o2','o3','nanos','d','n','std','sav','prev']}
    print('recurrence.next', explore(nxt, types, timeout=float(sys.argv[2]), per_path_timeout=20))
else:
    zid = sys.argv[3]
    zone = DateTimeZoneProviders.tzdb[zid]._time_zone
    periods = zone._PrecalculatedDateTimeZone__periods
    ts = zone._PrecalculatedDateTimeZone__tail_zone_start
    print(zid, len(periods), ts)
    tsd = min(ts._days_since_epoch, Instant._MAX_DAYS)
    def h(d, n):
        assume(Instant._MIN_DAYS <= d <= tsd); assume(0 <= n < NPD)
        t = Instant._ctor(days=d, nano_of_day=n)
        assume(t < ts)
        iv = zone.get_zone_interval(t)
        return iv._raw_start <= t and t < iv._raw_end
    print('precalc', explore(h, {'d': int, 'n': int}, timeout=float(sys.argv[2])))
