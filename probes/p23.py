import sys, time
from common import *
from pyoda_time import CalendarSystem
from pyoda_time.calendars._year_month_day_calculator import _YearMonthDayCalculator
from pyoda_time._year_month_day import _YearMonthDay
register_patch(_YearMonthDayCalculator._get_start_of_year_in_days, lambda self, year: self._calculate_start_of_year_days(year))
cal = CalendarSystem.for_id(sys.argv[1]); calc = cal._year_month_day_calculator
years = [int(a) for a in sys.argv[2:]]
for Y in years:
    t0 = time.time()
    diy = calc._get_days_in_year(Y); s0 = calc._get_start_of_year_in_days(Y)
    def rt(z):
        # all days of concrete year Y: days -> ymd -> days, fields valid
        assume(0 <= z < diy)
        d = s0 + z
        ymd = calc._get_year_month_day_from_days_since_epoch(d)
        y, m, dd = ymd._year, ymd._month, ymd._day
        return (y == Y and 1 <= m <= calc._get_months_in_year(Y) and 1 <= dd <= calc._get_days_in_month(Y, m)
                and calc._get_days_since_epoch(ymd) == d and calc._get_day_of_year(ymd) == z + 1)
    def inv(m, dd):
        assume(1 <= m <= calc._get_months_in_year(Y)); assume(1 <= dd <= calc._get_days_in_month(Y, m))
        ymd = _YearMonthDay._ctor(year=Y, month=m, day=dd)
        d = calc._get_days_since_epoch(ymd)
        back = calc._get_year_month_day_from_days_since_epoch(d)
        return s0 <= d < s0 + diy and back == ymd
    print(Y, 'rt', explore(rt, {'z': int}, timeout=60), 'inv', explore(inv, {'m': int, 'dd': int}, timeout=60), round(time.time() - t0, 1))
