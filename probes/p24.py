import sys, time, z3
from common import *
from crosshair.libimpl.builtinslib import SymbolicInt
from crosshair.statespace import context_statespace
from pyoda_time import CalendarSystem
from pyoda_time.calendars._year_month_day_calculator import _YearMonthDayCalculator
from pyoda_time.calendars._hebrew_scriptural_calculator import _HebrewScripturalCalculator as HS
from pyoda_time.calendars._badi_year_month_day_calculator import _BadiYearMonthDayCalculator as BD
from pyoda_time.calendars._persian_year_month_day_calculator import _PersianYearMonthDayCalculator as PY

class WindowTable:
    """values of a pure year-level function, tabulated by running the real code; symbolic lookups build an ITE over [lo, hi] only
    (side condition lo <= i <= hi is solver-checked)."""
    def __init__(self, fn, lo, hi):
        self.lo, self.hi = lo, hi
        self.vals = {y: fn(y) for y in range(lo, hi + 1)}
    def __call__(self, i):
        with NoTracing():
            if not isinstance(i, SymbolicInt):
                return self.vals[int(i)]
            space = context_statespace()
            if space.is_possible(z3.Not(z3.And(i.var >= self.lo, i.var <= self.hi))):
                raise AssertionError("window escape")
            e = z3.IntVal(self.vals[self.hi])
            for y in range(self.hi - 1, self.lo - 1, -1):
                e = z3.If(i.var == y, z3.IntVal(self.vals[y]), e)
            return SymbolicInt(e)

name, lo, hi, T = sys.argv[1], int(sys.argv[2]), int(sys.argv[3]), float(sys.argv[4])
cal = CalendarSystem.for_id(name); calc = cal._year_month_day_calculator
if name.startswith('Hebrew'):
    real = HS._HebrewScripturalCalculator__compute_cache_entry
    tab = WindowTable(lambda y: real(y), lo - 2, hi + 3)
    register_patch(HS._HebrewScripturalCalculator__get_or_populate_cache.__func__, lambda cls, year: tab(year))
    register_patch(_YearMonthDayCalculator._get_start_of_year_in_days, lambda self, year: self._calculate_start_of_year_days(year))
elif name == 'Badi':
    real_start = calc._calculate_start_of_year_days
    tstart = WindowTable(lambda y: real_start(y), max(1, lo - 2), min(1000, hi + 3))
    real_ha = BD._get_days_in_ayyami_ha.__func__
    tha = WindowTable(lambda y: real_ha(BD, y), max(1, lo - 2), min(1000, hi + 3))
    register_patch(_YearMonthDayCalculator._get_start_of_year_in_days, lambda self, year: tstart(year))
    register_patch(BD._calculate_start_of_year_days, lambda self, year: tstart(year))
    register_patch(real_ha, lambda cls, year: tha(year))
else:  # Persian
    real_start = calc._get_start_of_year_in_days
    tstart = WindowTable(lambda y: real_start(y), lo - 2, hi + 3)
    real_leap = type(calc)._is_leap_year
    tleap = WindowTable(lambda y: int(real_leap(calc, y)), lo - 2, hi + 3)
    register_patch(PY._get_start_of_year_in_days, lambda self, year: tstart(year))
    register_patch(real_leap, lambda self, year: tleap(year) == 1)

def split(year, doy):
    assume(lo <= year <= hi)
    assume(1 <= doy <= calc._get_days_in_year(year))
    ymd = calc._get_year_month_day_from_year_and_day_of_year(year, doy)
    y, m, d = ymd._year, ymd._month, ymd._day
    return (y == year and 1 <= m <= calc._get_months_in_year(year) and 1 <= d <= calc._get_days_in_month(year, m)
            and calc._get_days_from_start_of_year_to_start_of_month(year, m) + d == doy)
def yearlen(year):
    assume(lo <= year <= hi)
    return calc._get_start_of_year_in_days(year + 1) - calc._get_start_of_year_in_days(year) == calc._get_days_in_year(year)
dlo, dhi = calc._get_start_of_year_in_days(lo), calc._get_start_of_year_in_days(hi + 1) - 1
def getyear(days):
    assume(dlo <= days <= dhi)
    y, z = calc._get_year(days)
    s = calc._get_start_of_year_in_days(y)
    return lo <= y <= hi and s <= days and z == days - s and z < calc._get_days_in_year(y)
for nm, h, types in [('yearlen', yearlen, {'year': int}), ('split', split, {'year': int, 'doy': int}), ('getyear', getyear, {'days': int})]:
    print(name, lo, hi, nm, explore(h, types, timeout=T, per_path_timeout=20), flush=True)
