"""Batch of small lemma probes: C10 addtime, C11 odt, C13 zonecache, C16 nextprev (abstract self), C18 dateinterval, C19 fakeclock."""
import sys, threading
from common import *
from pyoda_time import (Duration, Instant, Offset, PyodaConstants, DateTimeZone, LocalTime, LocalDate, CalendarSystem, OffsetDateTime,
                        IsoDayOfWeek, DateInterval)
from pyoda_time.time_zones import ZoneInterval
from pyoda_time._local_instant import _LocalInstant
from pyoda_time._year_month_day_calendar import _YearMonthDayCalendar
from pyoda_time.calendars._year_month_day_calculator import _YearMonthDayCalculator
from pyoda_time.fields._time_period_field import _TimePeriodField
register_patch(_YearMonthDayCalculator._get_start_of_year_in_days, lambda self, year: self._calculate_start_of_year_days(year))
NPD = PyodaConstants.NANOSECONDS_PER_DAY
which, T = sys.argv[1], float(sys.argv[2])

if which == 'addtime':
    for unit_name, unit in [('hours', 3600 * 10**9), ('ticks', 100), ('nanoseconds', 1), ('minutes', 60 * 10**9)]:
        field = getattr(_TimePeriodField, '_' + unit_name)
        def h(n, v):
            assume(0 <= n < NPD); assume(-10**24 <= v * unit <= 10**24)
            t = LocalTime._ctor(nanoseconds=n)
            r = field._add_local_time(t, v)
            r2, extra = field._add_local_time_with_extra_days(t, v)
            tot = n + v * unit
            return (r.nanosecond_of_day == tot % NPD and r2.nanosecond_of_day == tot % NPD and extra == tot // NPD and t.nanosecond_of_day == n)
        print('addtime', unit_name, explore(h, {'n': int, 'v': int}, timeout=T), flush=True)

if which == 'odt':
    cal = CalendarSystem.coptic
    def h(d, n, o1, o2, dur):
        assume(cal._min_days + 3 <= d <= cal._max_days - 3); assume(0 <= n < NPD)
        assume(-64800 <= o1 <= 64800); assume(-64800 <= o2 <= 64800); assume(-2 * NPD <= dur <= 2 * NPD)
        t = Instant._ctor(days=d, nano_of_day=n)
        x = OffsetDateTime._ctor(instant=t, offset=Offset.from_seconds(o1), calendar=cal)
        tot = d * NPD + n
        loc = x.date._days_since_epoch * NPD + x.nanosecond_of_day
        ok = loc == tot + o1 * 10**9 and x.to_instant() == t
        y = x.with_offset(Offset.from_seconds(o2))
        ok = ok and y.to_instant() == t and y.offset.seconds == o2 and y.calendar is cal
        z = x + Duration.from_nanoseconds(dur)
        ok = ok and z.to_instant()._time_since_epoch.to_nanoseconds() == tot + dur and z.offset.seconds == o1
        return ok
    print('odt', explore(h, {k: int for k in ['d', 'n', 'o1', 'o2', 'dur']}, timeout=T), flush=True)
    def hcal(d, n, o1, dur):
        assume(cal._min_days + 3 <= d <= cal._max_days - 3); assume(0 <= n < NPD); assume(-64800 <= o1 <= 64800); assume(-NPD <= dur <= NPD)
        x = OffsetDateTime._ctor(instant=Instant._ctor(days=d, nano_of_day=n), offset=Offset.from_seconds(o1), calendar=cal)
        return (x + Duration.from_nanoseconds(dur)).calendar is cal
    print('odt-calendar-retained', explore(hcal, {k: int for k in ['d', 'n', 'o1', 'dur']}, timeout=T), flush=True)

if which == 'nextprev':
    class AbsDate:
        def __init__(self, dow): self._dow = dow; self.added = None
        @property
        def day_of_week(self): return self._dow
        def plus_days(self, n): self.added = n; return self
    def h(cur, target):
        assume(1 <= cur <= 7); assume(1 <= target <= 7)
        a = AbsDate(cur); LocalDate.next(a, IsoDayOfWeek(target)); n = a.added
        b = AbsDate(cur); LocalDate.previous(b, IsoDayOfWeek(target)); p = b.added
        return 1 <= n <= 7 and (cur - 1 + n) % 7 + 1 == target and -7 <= p <= -1 and (cur - 1 + p) % 7 + 1 == target
    print('nextprev', explore(h, {'cur': int, 'target': int}, timeout=T), flush=True)

if which == 'dateinterval':
    cal = CalendarSystem.julian; calc = cal._year_month_day_calculator
    def mk(y, m, d):
        assume(-100 <= y <= 100); assume(1 <= m <= 12); assume(1 <= d <= calc._get_days_in_month(y, m))
        return LocalDate._ctor(year_month_day_calendar=_YearMonthDayCalendar._ctor(year=y, month=m, day=d, calendar_ordinal=cal._ordinal))
    def h(y1, m1, d1, y2, m2, d2, y3, m3, d3, y4, m4, d4):
        a, b, c, e = mk(y1, m1, d1), mk(y2, m2, d2), mk(y3, m3, d3), mk(y4, m4, d4)
        A, B, C, E = a._days_since_epoch, b._days_since_epoch, c._days_since_epoch, e._days_since_epoch
        assume(A <= B); assume(C <= E)
        I, J = DateInterval(a, b), DateInterval(c, e)
        ok = len(I) == B - A + 1
        inter = I & J
        lo_, hi_ = max(A, C), min(B, E)
        if lo_ <= hi_:
            ok = ok and inter is not None and inter.start._days_since_epoch == lo_ and inter.end._days_since_epoch == hi_
        else:
            ok = ok and inter is None
        uni = I | J
        if lo_ <= hi_ + 1:
            ok = ok and uni is not None and uni.start._days_since_epoch == min(A, C) and uni.end._days_since_epoch == max(B, E)
        else:
            ok = ok and uni is None
        return ok
    print('dateinterval', explore(h, {k: int for k in ['y1','m1','d1','y2','m2','d2','y3','m3','d3','y4','m4','d4']}, timeout=T, per_path_timeout=20), flush=True)

if which == 'fakeclock':
    import pyoda_time.testing._fake_clock as fc
    class Deadlock(Exception): pass
    class MonitorLock:
        def __init__(self): self.held = False
        def acquire(self, *a, **k):
            if self.held: raise Deadlock("re-acquired by holder")
            self.held = True; return True
        def release(self): self.held = False
        def __enter__(self): self.acquire(); return self
        def __exit__(self, *a): self.release()
    class _Threading:
        Lock = MonitorLock
    fc.threading = _Threading
    from pyoda_time.testing import FakeClock
    def h(t0, aa, op1, v1, op2, v2, op3, v3):
        B = 10**15
        for v in (t0, aa, v1, v2, v3): assume(-B <= v <= B)
        for op in (op1, op2, op3): assume(0 <= op <= 4)
        c = FakeClock(Instant.from_unix_time_ticks(0).plus_nanoseconds(t0), Duration.from_nanoseconds(aa))
        now, auto = t0, aa
        for op, v in ((op1, v1), (op2, v2), (op3, v3)):
            if op == 0:
                got = c.get_current_instant()._time_since_epoch.to_nanoseconds()
                if got != now: return False
                now += auto
            elif op == 1:
                c.advance(Duration.from_nanoseconds(v)); now += v
            elif op == 2:
                c.advance_seconds(v // 10**9); now += (v // 10**9) * 10**9
            elif op == 3:
                c.reset(Instant.from_unix_time_ticks(0).plus_nanoseconds(v)); now = v
            else:
                c.auto_advance = Duration.from_nanoseconds(v); auto = v
        return c.get_current_instant()._time_since_epoch.to_nanoseconds() == now
    print('fakeclock', explore(h, {k: int for k in ['t0','aa','op1','v1','op2','v2','op3','v3']}, timeout=T), flush=True)
