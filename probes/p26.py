"""Real LocalDate / DateInterval / OffsetDateTime over an abstract 'day-number calendar' injected into a real CalendarSystem."""
import sys
from common import *
from pyoda_time import (Duration, Instant, Offset, PyodaConstants, LocalDate, CalendarSystem, OffsetDateTime, DateInterval, Period)
NPD = PyodaConstants.NANOSECONDS_PER_DAY
T = float(sys.argv[2]); which = sys.argv[1]
host = CalendarSystem.coptic            # a real CalendarSystem object used as host for the abstract calculator

class DayYMD:
    """abstract year/month/day value: just its day number"""
    def __init__(self, days): self.days = days
    def compare_to(self, o): return self.days - o.days
    def __eq__(self, o): return isinstance(o, DayYMD) and self.days == o.days
    def __hash__(self): return 0
    def _with_calendar_ordinal(self, ordinal): return DayYMDC(self.days, ordinal)
    def _with_calendar(self, cal): return DayYMDC(self.days, cal._ordinal)
class DayYMDC:
    def __init__(self, days, ordinal): self.days, self._calendar_ordinal = days, ordinal
    def _to_year_month_day(self): return DayYMD(self.days)
    def __eq__(self, o): return isinstance(o, DayYMDC) and self.days == o.days and self._calendar_ordinal == o._calendar_ordinal
    def __hash__(self): return 0
class DayCalc:
    _min_year, _max_year = host.min_year, host.max_year
    def _get_days_since_epoch(self, ymd): return ymd.days
    def compare(self, a, b): return a.compare_to(b)
    def _get_year_month_day(self, *, days_since_epoch=None, **kw): return DayYMD(days_since_epoch)
def inject():
    host._CalendarSystem__year_month_day_calculator = DayCalc()
def date(days):
    assume(host._min_days <= days <= host._max_days)
    return LocalDate._ctor(year_month_day_calendar=DayYMDC(days, host._ordinal))

if which == 'dateinterval':
    def h(A, B, C, E, X):
        inject()
        assume(A <= B); assume(C <= E)
        a, b, c, e, x = date(A), date(B), date(C), date(E), date(X)
        I, J = DateInterval(a, b), DateInterval(c, e)
        ok = len(I) == B - A + 1 and ((x in I) == (A <= X <= B)) and ((J in I) == (A <= C and E <= B))
        inter = I & J
        lo_, hi_ = max(A, C), min(B, E)
        if lo_ <= hi_:
            ok = ok and inter is not None and inter.start._days_since_epoch == lo_ and inter.end._days_since_epoch == hi_
        else:
            ok = ok and inter is None
        uni = I | J
        if lo_ <= hi_ + 1:
            ok = ok and uni is not None and uni.start._days_since_epoch == min(A, C) and uni.end._days_since_epoch == max(B, E)
        else:
            ok = ok and uni is None
        try:
            DateInterval(b, a); rej = False
        except ValueError:
            rej = True
        return ok and (rej == (A < B))
    print('dateinterval', explore(h, {k: int for k in 'ABCEX'}, timeout=T), flush=True)

if which == 'odt':
    def h(d, n, o1, o2, dur):
        inject()
        assume(host._min_days + 3 <= d <= host._max_days - 3); assume(0 <= n < NPD)
        assume(-64800 <= o1 <= 64800); assume(-64800 <= o2 <= 64800); assume(-2 * NPD <= dur <= 2 * NPD)
        t = Instant._ctor(days=d, nano_of_day=n)
        x = OffsetDateTime._ctor(instant=t, offset=Offset.from_seconds(o1), calendar=host)
        tot = d * NPD + n
        loc = x.date._days_since_epoch * NPD + x.nanosecond_of_day
        ok = loc == tot + o1 * 10**9 and 0 <= x.nanosecond_of_day < NPD and x.to_instant() == t
        y = x.with_offset(Offset.from_seconds(o2))
        ok = ok and y.to_instant() == t and y.offset.seconds == o2 and y.calendar is host
        ok = ok and y.date._days_since_epoch * NPD + y.nanosecond_of_day == tot + o2 * 10**9
        z = x - Duration.from_nanoseconds(dur)
        ok = ok and z.to_instant()._time_since_epoch.to_nanoseconds() == tot - dur and z.offset.seconds == o1
        w = OffsetDateTime._ctor(instant=Instant._ctor(days=d + 1, nano_of_day=n), offset=Offset.from_seconds(o2), calendar=host)
        return ok and (w - x).to_nanoseconds() == NPD
    print('odt', explore(h, {k: int for k in ['d', 'n', 'o1', 'o2', 'dur']}, timeout=T), flush=True)
