import sys, io
from common import *
from pyoda_time import (Duration, Instant, Offset, PyodaConstants, DateTimeZone, LocalDate, CalendarSystem, DateTimeZoneProviders)
from pyoda_time.time_zones import ZoneInterval
from pyoda_time.calendars._year_month_day_calculator import _YearMonthDayCalculator
from pyoda_time._year_month_day_calendar import _YearMonthDayCalendar
register_patch(_YearMonthDayCalculator._get_start_of_year_in_days, lambda self, year: self._calculate_start_of_year_days(year))
NPD = PyodaConstants.NANOSECONDS_PER_DAY
which, T = sys.argv[1], float(sys.argv[2])

class SymZone(DateTimeZone):
    def __init__(self, intervals):
        super().__init__("sym", False, Offset.min_value, Offset.max_value)
        self.intervals = intervals
    def get_zone_interval(self, instant):
        for iv in self.intervals:
            if instant in iv: return iv
        raise AssertionError("uncovered")

if which == 'zonecache':
    from pyoda_time.time_zones._caching_zone_interval_map import _CachingZoneIntervalMap
    def h(d1, n1, d2, n2, qd, qn, pd, use_prior):
        lo, hi = Instant._MIN_DAYS + 40, Instant._MAX_DAYS - 40
        for d in (d1, d2, qd, pd): assume(lo <= d <= hi)
        for n in (n1, n2, qn): assume(0 <= n < NPD)
        assume(d1 * NPD + n1 < d2 * NPD + n2)
        t1 = Instant._ctor(days=d1, nano_of_day=n1); t2 = Instant._ctor(days=d2, nano_of_day=n2)
        O = Offset.from_seconds
        ivs = [ZoneInterval(name="a", start=None, end=t1, wall_offset=O(0), savings=O(0)),
               ZoneInterval(name="b", start=t1, end=t2, wall_offset=O(3600), savings=O(3600)),
               ZoneInterval(name="c", start=t2, end=None, wall_offset=O(0), savings=O(0))]
        z = SymZone(ivs)
        m = _CachingZoneIntervalMap._cache_map(z)
        if use_prior:
            # pre-state: the slot the query will use was last filled for an aliasing period (prior query 512 periods away, or same period)
            assume(((pd >> 5) & 511) == ((qd >> 5) & 511))
            m.get_zone_interval(Instant._ctor(days=pd, nano_of_day=0))
        q = Instant._ctor(days=qd, nano_of_day=qn)
        return m.get_zone_interval(q) is z.get_zone_interval(q)
    print('zonecache', explore(h, {'d1': int, 'n1': int, 'd2': int, 'n2': int, 'qd': int, 'qn': int, 'pd': int, 'use_prior': bool}, timeout=T), flush=True)

if which == 'plusdays':
    cal = CalendarSystem.for_id(sys.argv[3]); calc = cal._year_month_day_calculator
    lo, hi = calc._min_year, calc._max_year
    def h(y, m, d, n):
        assume(lo + 1 <= y <= hi - 1); assume(1 <= m <= calc._get_months_in_year(y)); assume(1 <= d <= calc._get_days_in_month(y, m)); assume(-299 <= n <= 299)
        date = LocalDate._ctor(year_month_day_calendar=_YearMonthDayCalendar._ctor(year=y, month=m, day=d, calendar_ordinal=cal._ordinal))
        r = date.plus_days(n)
        ry, rm, rd = r.year, r.month, r.day
        before = calc._calculate_start_of_year_days(y) + calc._get_days_from_start_of_year_to_start_of_month(y, m) + d - 1
        after = calc._calculate_start_of_year_days(ry) + calc._get_days_from_start_of_year_to_start_of_month(ry, rm) + rd - 1
        return after == before + n and 1 <= rm <= calc._get_months_in_year(ry) and 1 <= rd <= calc._get_days_in_month(ry, rm) and date.year == y and date.day == d
    print('plusdays', sys.argv[3], explore(h, {'y': int, 'm': int, 'd': int, 'n': int}, timeout=T), flush=True)

if which == 'create':
    from pyoda_time.text import OffsetPattern, LocalTimePattern, InvalidPatternError
    L = int(sys.argv[3])
    def h(p):
        assume(1 <= len(p) <= L)
        for ch in p: assume(ch in "Hms+-:'\\%Zf.<> ")
        try:
            OffsetPattern.create_with_invariant_culture(p)
        except InvalidPatternError:
            pass
        return True
    print('create', explore(h, {'p': str}, timeout=T), flush=True)

if which == 'hybrid':
    from pyoda_time.time_zones.io._date_time_zone_reader import _DateTimeZoneReader
    from pyoda_time.time_zones._precalculated_date_time_zone import _PrecalculatedDateTimeZone
    from pyoda_time.time_zones.io._tzdb_stream_field import _TzdbStreamField
    from pyoda_time.utility import InvalidPyodaDataError
    f = open('/repo/pyoda_time/time_zones/Tzdb.nzd', 'rb'); f.read(4)
    fields = list(_TzdbStreamField._read_fields(f))
    pool_field = [x for x in fields if x.id.name == 'STRING_POOL'][0]
    r0 = _DateTimeZoneReader._ctor(io.BytesIO(bytes(pool_field._TzdbStreamField__data)), None)
    pool = tuple(r0.read_string() for _ in range(r0.read_count()))
    zf = [x for x in fields if x.id.name == 'TIME_ZONE']
    data = None
    for x in zf:
        b = bytes(x._TzdbStreamField__data)
        r = _DateTimeZoneReader._ctor(io.BytesIO(b), pool)
        if r.read_string() == sys.argv[3]: data = b
    print(sys.argv[3], len(data))
    pos = int(sys.argv[4])
    def h(v):
        assume(0 <= v <= 255)
        buf = list(data); buf[pos] = v
        r = _DateTimeZoneReader._ctor(Stream(buf), pool)
        try:
            r.read_string(); t = r.read_byte()
            if t == 2: _PrecalculatedDateTimeZone._read(r, "x")
        except InvalidPyodaDataError:
            pass
        return True
    print('hybrid pos', pos, explore(h, {'v': int}, timeout=T), flush=True)
