import sys
from common import *
import fmtint; fmtint.install()
from pyoda_time import Offset, LocalTime, LocalDate, PyodaConstants
from pyoda_time.text import OffsetPattern, LocalTimePattern, LocalDatePattern
from pyoda_time.text._parse_result import ParseResult
from pyoda_time.text._unparsable_value_error import UnparsableValueError
_orig_fiv = ParseResult._for_invalid_value.__func__
def _fiv(cls, cursor_or_exception_provider, *args):
    if callable(cursor_or_exception_provider):
        return _orig_fiv(cls, cursor_or_exception_provider, *args)
    return cls._ctor(exception_provider=lambda: UnparsableValueError("stub"), continue_with_multiple=True)
register_patch(_orig_fiv, _fiv)
which, T = sys.argv[1], float(sys.argv[2])
NPS = 10**9
if which == 'time-fields':
    for ptxt, lo, hi, mk, get in [
        ("HH", 0, 23, lambda v: LocalTime._ctor(nanoseconds=v * 3600 * NPS), lambda t: t.hour),
        ("mm", 0, 59, lambda v: LocalTime._ctor(nanoseconds=v * 60 * NPS), lambda t: t.minute),
        ("ss.fffffffff", 0, 60 * NPS - 1, lambda v: LocalTime._ctor(nanoseconds=v), lambda t: t.second * NPS + t.nanosecond_of_second),
        ("ss.FFFFFFFFF", 0, 60 * NPS - 1, lambda v: LocalTime._ctor(nanoseconds=v), lambda t: t.second * NPS + t.nanosecond_of_second),
    ]:
        pat = LocalTimePattern.create_with_invariant_culture(ptxt)
        def h(v):
            assume(lo <= v <= hi)
            val = mk(v)
            text = pat.format(val)
            r = pat.parse(text)
            return r.success and get(r.value) == v
        print('field', ptxt, explore(h, {'v': int}, timeout=T), fmtint.STATS, flush=True)
if which == 'date-iso':
    pat = LocalDatePattern.iso
    from pyoda_time._year_month_day_calendar import _YearMonthDayCalendar
    from pyoda_time import CalendarSystem
    iso = CalendarSystem.iso; calc = iso._year_month_day_calculator
    def h(y, m, d):
        assume(int(sys.argv[3]) <= y <= int(sys.argv[4])); assume(1 <= m <= 12); assume(1 <= d <= calc._get_days_in_month(y, m))
        val = LocalDate._ctor(year_month_day_calendar=_YearMonthDayCalendar._ctor(year=y, month=m, day=d, calendar_ordinal=iso._ordinal))
        text = pat.format(val)
        r = pat.parse(text)
        return r.success and r.value.year == y and r.value.month == m and r.value.day == d
    print('date-iso', explore(h, {'y': int, 'm': int, 'd': int}, timeout=T), fmtint.STATS, flush=True)
