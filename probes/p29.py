"""Composition skeleton for C01: lemma statements over uninterpreted functions => round trip. z3 only."""
import z3, time
I = z3.IntSort()
start = z3.Function('start', I, I)            # start of year in days
diy = z3.Function('diy', I, I)                # days in year
gy_y = z3.Function('gy_y', I, I); gy_z = z3.Function('gy_z', I, I)     # _get_year(d) = (y, z)
sp_m = z3.Function('sp_m', I, I, I); sp_d = z3.Function('sp_d', I, I, I)  # split(y, doy) = (m, dd)
dsm = z3.Function('dsm', I, I, I); dim = z3.Function('dim', I, I, I); miy = z3.Function('miy', I, I)
days = z3.Function('days', I, I, I, I)        # _get_days_since_epoch(y, m, d)
MINY, MAXY, MIND, MAXD = z3.Ints('MINY MAXY MIND MAXD')
y, d, doy, m, dd = z3.Ints('y d doy m dd')
L = []
L.append(z3.ForAll([d], z3.Implies(z3.And(MIND <= d, d <= MAXD),
        z3.And(MINY <= gy_y(d), gy_y(d) <= MAXY, start(gy_y(d)) <= d, gy_z(d) == d - start(gy_y(d)), gy_z(d) < diy(gy_y(d)), gy_z(d) >= 0))))   # getyear
L.append(z3.ForAll([y, doy], z3.Implies(z3.And(MINY <= y, y <= MAXY, 1 <= doy, doy <= diy(y)),
        z3.And(1 <= sp_m(y, doy), sp_m(y, doy) <= miy(y), 1 <= sp_d(y, doy), sp_d(y, doy) <= dim(y, sp_m(y, doy)),
               dsm(y, sp_m(y, doy)) + sp_d(y, doy) == doy))))                                                                       # split
L.append(z3.ForAll([y, m, dd], z3.Implies(z3.And(MINY <= y, y <= MAXY, 1 <= m, m <= miy(y), 1 <= dd, dd <= dim(y, m)),
        days(y, m, dd) == start(y) + dsm(y, m) + dd - 1)))                                                                          # days
# goal: forall d in range: days(from_days(d)) == d
D = z3.Int('D')
Y = gy_y(D); DOY = gy_z(D) + 1
goal = z3.Implies(z3.And(MIND <= D, D <= MAXD), days(Y, sp_m(Y, DOY), sp_d(Y, DOY)) == D)
s = z3.Solver(); s.set('timeout', 60000)
s.add(*L); s.add(z3.Not(goal))
t0 = time.time(); r = s.check(); print('roundtrip composition:', r, round(time.time() - t0, 2), 's')
