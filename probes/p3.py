from crosshair import register_patch
from pyoda_time.calendars._gregorian_year_month_day_calculator import _GregorianYearMonthDayCalculator
from pyoda_time.calendars._julian_year_month_day_calculator import _JulianYearMonthDayCalculator
from pyoda_time.utility import _csharp_compatibility as cc

def _tzd(x, y):
    if isinstance(x, int) and isinstance(y, int):
        q = abs(x) // abs(y)
        return q if (x >= 0) == (y >= 0) else -q
    raise TypeError
register_patch(cc._towards_zero_division, _tzd)
_G = _GregorianYearMonthDayCalculator()
_J = _JulianYearMonthDayCalculator()

def ref_start_bad(year: int) -> int:
    y = year - 1
    return 365 * y + y // 4 - y // 100 + (y+1) // 400 - 719162

def start_of_year_bad(year: int) -> int:
    """
    pre: -9999 <= year <= 10000
    post: _ == ref_start_bad(year)
    """
    return _G._calculate_start_of_year_days(year)

def roundtrip_g(days: int) -> int:
    """
    pre: -4371222 <= days <= 2932896
    post: _ == days
    """
    ymd = _G._get_year_month_day_from_days_since_epoch(days)
    return _G._get_days_since_epoch(ymd)

def roundtrip_j(days: int) -> int:
    """
    pre: -4371222 <= days <= 2932896
    post: _ == days
    """
    ymd = _J._get_year_month_day_from_days_since_epoch(days)
    return _J._get_days_since_epoch(ymd)
