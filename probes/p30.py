import sys, datetime
from common import *
from pyoda_time import LocalDate, LocalTime, CalendarSystem, PyodaConstants
from pyoda_time.calendars._year_month_day_calculator import _YearMonthDayCalculator
register_patch(_YearMonthDayCalculator._get_start_of_year_in_days, lambda self, year: self._calculate_start_of_year_days(year))
T = float(sys.argv[2]); which = sys.argv[1]
if which == 'time':
    def h(hh, mm, ss, us):
        assume(0 <= hh < 24); assume(0 <= mm < 60); assume(0 <= ss < 60); assume(0 <= us < 10**6)
        t = datetime.time(hh, mm, ss, us)
        lt = LocalTime.from_time(t)
        back = lt.to_time()
        return back == t and lt.nanosecond_of_day == ((hh * 60 + mm) * 60 + ss) * 10**9 + us * 1000
    print('time', explore(h, {'hh': int, 'mm': int, 'ss': int, 'us': int}, timeout=T), flush=True)
if which == 'date':
    def h(o):
        assume(int(sys.argv[3]) <= o <= int(sys.argv[4]))
        d = datetime.date.fromordinal(o)
        ld = LocalDate.from_date(d)
        return ld._days_since_epoch == o - 719163 and ld.year == d.year and ld.month == d.month and ld.day == d.day
    print('date', explore(h, {'o': int}, timeout=T), flush=True)
