"""C16 weekyear round trip on an abstract calendar (stub dates), all regular + irregular rules; C04 altmap with abstract recurrences."""
import sys
from common import *
from pyoda_time import IsoDayOfWeek, Instant, Offset, PyodaConstants, Duration
from pyoda_time.calendars._simple_week_year_rule import _SimpleWeekYearRule
which, T = sys.argv[1], float(sys.argv[2])
NPD = PyodaConstants.NANOSECONDS_PER_DAY

if which == 'weekyear':
    import pyoda_time._local_date as ld_mod
    class AYMD:
        def __init__(self, y, days): self._year, self.days = y, days
        def _with_calendar(self, cal): return AYMDC(self._year, self.days, cal)
    class AYMDC:
        def __init__(self, y, days, cal): self._year, self.days, self.cal = y, days, cal
        def _to_year_month_day(self): return AYMD(self._year, self.days)
        @property
        def _calendar_ordinal(self): return self.cal
    class ADate:
        def __init__(self, y, days, cal): self._year_month_day = AYMD(y, days); self.calendar = cal; self.year = y
    class SymCalc:
        def __init__(self, Y, S, lens): self.Y, self.S, self.lens = Y, S, lens
        def _len(self, y): return self.lens[y - self.Y + 2]
        def _get_days_in_year(self, y): return self._len(y)
        def _get_start_of_year_in_days(self, y):
            k = y - self.Y
            if k == -2: return self.S - self.lens[1] - self.lens[0]
            if k == -1: return self.S - self.lens[1]
            if k == 0: return self.S
            if k == 1: return self.S + self.lens[2]
            if k == 2: return self.S + self.lens[2] + self.lens[3]
            if k == 3: return self.S + self.lens[2] + self.lens[3] + self.lens[4]
            raise AssertionError("window")
        def _get_days_since_epoch(self, ymd): return ymd.days
        def _get_year_month_day(self, *, days_since_epoch=None, **kw):
            d = days_since_epoch
            for k in (-2, -1, 0, 1, 2):
                if self._get_start_of_year_in_days(self.Y + k) <= d < self._get_start_of_year_in_days(self.Y + k + 1):
                    return AYMD(self.Y + k, d)
            raise AssertionError("window")
    class SymCal:
        def __init__(self, calc): self._year_month_day_calculator = calc; self.min_year, self.max_year = -10**6, 10**6; self._min_days, self._max_days = -10**12, 10**12
    # LocalDate._ctor(year_month_day_calendar=AYMDC) is real; ret.year reads AYMDC._year
    irregular = sys.argv[3] == 'irr'
    from pyoda_time import CalendarSystem
    register_patch(CalendarSystem._for_ordinal.__func__, lambda cls, ordinal: ordinal)
    def h(min_days, first, S, l0, l1, l2, l3, l4, z):
        assume(1 <= min_days <= 7); assume(1 <= first <= 7); assume(-5 * 10**6 <= S <= 5 * 10**6)
        for l in (l0, l1, l2, l3, l4): assume(353 <= l <= 385)
        if irregular: assume(min_days in (1, 4, 7))
        rule = _SimpleWeekYearRule(min_days, IsoDayOfWeek(first), irregular)
        calc = SymCalc(2000, S, [l0, l1, l2, l3, l4]); cal = SymCal(calc)
        assume(0 <= z < l2)                      # any day of calendar year 2000
        days = S + z
        date = ADate(2000, days, cal)
        wy = rule.get_week_year(date); w = rule.get_week_of_week_year(date); n = rule.get_weeks_in_week_year(wy, cal)
        dow = (days + 3) % 7 + 1
        back = rule.get_local_date(wy, w, IsoDayOfWeek(dow), cal)
        bdays = back._LocalDate__year_month_day_calendar.days
        return 1999 <= wy <= 2001 and 1 <= w <= n and bdays == days
    print('weekyear', sys.argv[3], explore(h, {k: int for k in ['min_days', 'first', 'S', 'l0', 'l1', 'l2', 'l3', 'l4', 'z']}, timeout=T), flush=True)

if which == 'altmap':
    from pyoda_time.time_zones._standard_daylight_alternating_map import _StandardDaylightAlternatingMap as AM
    from pyoda_time.time_zones._transition import _Transition
    class AbsRec:
        """abstract recurrence: transitions at prev <= instant < next, arbitrary otherwise"""
        def __init__(self, name, savings, prev_ns, next_ns): self.name, self.savings, self.p, self.n = name, savings, prev_ns, next_ns
        def _mk(self, ns, std): return _Transition._ctor(Instant.from_unix_time_ticks(0).plus_nanoseconds(ns), std + self.savings)
        def _next_or_fail(self, instant, std, prev_sav): return self._mk(self.n, std)
        def _previous_or_same_or_fail(self, instant, std, prev_sav): return self._mk(self.p, std)
    def h(t, dp, dn, sp, sn, std, sav):
        B = 10**18
        for v in (t, dp, dn, sp, sn): assume(-B <= v <= B)
        assume(dp <= t < dn); assume(sp <= t < sn); assume(dn != sn); assume(dp != sp)
        # alternation: the later previous transition is of the other kind than the earlier next transition
        assume((dp > sp) == (sn < dn))
        assume(-64800 <= std <= 64800); assume(-64800 <= std + sav <= 64800); assume(sav != 0); assume(-64800 <= sav <= 64800)
        m = object.__new__(AM)
        m._StandardDaylightAlternatingMap__standard_offset = Offset.from_seconds(std)
        dst = AbsRec("D", Offset.from_seconds(sav), dp, dn); sr = AbsRec("S", Offset.zero, sp, sn)
        m._StandardDaylightAlternatingMap__dst_recurrence = dst; m._StandardDaylightAlternatingMap__standard_recurrence = sr
        inst = Instant.from_unix_time_ticks(0).plus_nanoseconds(t)
        iv = m.get_zone_interval(inst)
        s_ns = iv._raw_start._time_since_epoch.to_nanoseconds(); e_ns = iv._raw_end._time_since_epoch.to_nanoseconds()
        in_dst = dp > sp
        return (s_ns == max(dp, sp) and e_ns == min(dn, sn) and s_ns <= t < e_ns and iv.name == ("D" if in_dst else "S")
                and iv.wall_offset.seconds == std + (sav if in_dst else 0) and iv.savings.seconds == (sav if in_dst else 0))
    print('altmap', explore(h, {k: int for k in ['t', 'dp', 'dn', 'sp', 'sn', 'std', 'sav']}, timeout=T), flush=True)
