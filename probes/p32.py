import sys
from common import *
from pyoda_time import Duration, Instant, Offset, PyodaConstants, LocalTime, Period, PeriodUnits
from pyoda_time.time_zones.io._date_time_zone_writer import _DateTimeZoneWriter
from pyoda_time.time_zones.io._date_time_zone_reader import _DateTimeZoneReader
from pyoda_time.utility import InvalidPyodaDataError
from pyoda_time.calendars._year_month_day_calculator import _YearMonthDayCalculator
register_patch(_YearMonthDayCalculator._get_start_of_year_in_days, lambda self, year: self._calculate_start_of_year_days(year))
NPD = PyodaConstants.NANOSECONDS_PER_DAY
which, T = sys.argv[1], float(sys.argv[2])

if which == 'between':
    units_ns = [(PeriodUnits.HOURS, 3600 * 10**9, 'hours'), (PeriodUnits.MINUTES, 60 * 10**9, 'minutes'), (PeriodUnits.SECONDS, 10**9, 'seconds'),
                (PeriodUnits.MILLISECONDS, 10**6, 'milliseconds'), (PeriodUnits.TICKS, 100, 'ticks'), (PeriodUnits.NANOSECONDS, 1, 'nanoseconds')]
    import itertools, time
    t0 = time.time(); tot = 0; bad = []
    subsets = [s for r in range(1, 7) for s in itertools.combinations(range(6), r)]
    for sub in subsets[: int(sys.argv[3])]:
        mask = PeriodUnits.NONE
        for i in sub: mask |= units_ns[i][0]
        def h(a, b):
            assume(0 <= a < NPD); assume(0 <= b < NPD)
            p = Period.between(LocalTime._ctor(nanoseconds=a), LocalTime._ctor(nanoseconds=b), mask)
            total = 0; signs_ok = True
            for i in range(6):
                v = getattr(p, units_ns[i][2])
                if i not in sub and v != 0: return False
                total += v * units_ns[i][1]
                if (b >= a and v < 0) or (b <= a and v > 0): signs_ok = False
            finest = units_ns[max(sub)][1]
            lo, hi = (a, b) if a <= b else (b, a)
            return signs_ok and lo <= a + total <= hi and abs(b - (a + total)) < finest and p.years == 0 and p.days == 0
        r = explore(h, {'a': int, 'b': int}, timeout=T)
        tot += r.paths
        if not (r.exhausted and r.cex is None and r.unknown == 0): bad.append((sub, r))
    print('between subsets', len(subsets[: int(sys.argv[3])]), 'paths', tot, 'bad', bad[:2], round(time.time() - t0, 1), flush=True)

if which == 'transition':
    def h(pt, vt, has_prev):
        lo, hi = Instant._MIN_DAYS * 864 * 10**9, (Instant._MAX_DAYS + 1) * 864 * 10**9 - 1
        assume(lo <= pt <= hi); assume(lo <= vt <= hi); assume(vt >= pt)
        prev = Instant.from_unix_time_ticks(pt) if has_prev else None
        val = Instant.from_unix_time_ticks(vt)
        s = Stream(); w = _DateTimeZoneWriter._ctor(s, None)
        w.write_zone_interval_transition(prev, val)
        r = _DateTimeZoneReader._ctor(s, None)
        back = r.read_zone_interval_transition(prev)
        return back == val and s.pos == len(s.buf)
    print('transition', explore(h, {'pt': int, 'vt': int, 'has_prev': bool}, timeout=T, per_path_timeout=20), flush=True)

if which == 'primdiff':
    N = int(sys.argv[3])
    def ref_count(buf):
        ret, shift = 0, 0
        for i, b in enumerate(buf):
            ret += (b % 128) * (2 ** shift); shift += 7
            if b < 128: return ('ok', ret, i + 1) if ret <= 2**31 - 1 else ('bad', 0, 0)
        return ('bad', 0, 0)
    def h(b0, b1, b2, b3, b4, b5, n):
        bs = [b0, b1, b2, b3, b4, b5][:N]
        assume(0 <= n <= N)
        for b in bs: assume(0 <= b <= 255)
        buf = bs[:n]
        st = Stream(buf); r = _DateTimeZoneReader._ctor(st, None)
        try:
            got = ('ok', r.read_count(), st.pos)
        except InvalidPyodaDataError:
            got = ('bad', 0, 0)
        exp = ref_count(buf)
        return got[0] == exp[0] and got[1] == exp[1] and got[2] == exp[2]
    print('primdiff read_count', explore(h, {k: int for k in ['b0','b1','b2','b3','b4','b5','n']}, timeout=T), flush=True)

if which == 'unix':
    def h(s):
        lo, hi = Instant._MIN_DAYS * 86400, (Instant._MAX_DAYS + 1) * 86400 - 1
        try:
            i = Instant.from_unix_time_seconds(s)
        except ValueError:
            return not (lo <= s <= hi)
        return lo <= s <= hi and i.to_unix_time_seconds() == s and i.to_unix_time_milliseconds() == s * 1000 and i.to_unix_time_ticks() == s * 10**7
    print('unix seconds', explore(h, {'s': int}, timeout=T), flush=True)
    def h2(d, n):
        assume(Instant._MIN_DAYS <= d <= Instant._MAX_DAYS); assume(0 <= n < NPD)
        i = Instant._ctor(days=d, nano_of_day=n); tot = d * NPD + n
        return i.to_unix_time_seconds() == tot // 10**9 and i.to_unix_time_milliseconds() == tot // 10**6 and i.to_unix_time_ticks() == tot // 100
    print('unix floor', explore(h2, {'d': int, 'n': int}, timeout=T), flush=True)
