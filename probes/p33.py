"""C05 resolvers and at_start_of_day on a symbolic zone, with real LocalDate/LocalDateTime/OffsetDateTime/ZonedDateTime over DayCalendar."""
import sys
from common import *
from pyoda_time import (Duration, Instant, Offset, PyodaConstants, DateTimeZone, LocalDate, LocalTime, LocalDateTime, CalendarSystem,
                        SkippedTimeError, AmbiguousTimeError)
from pyoda_time.time_zones import ZoneInterval
from pyoda_time.fields._fixed_length_date_period_field import _FixedLengthDatePeriodField
NPD = PyodaConstants.NANOSECONDS_PER_DAY
which, T = sys.argv[1], float(sys.argv[2])
host = CalendarSystem.coptic

class DayYMD:
    def __init__(self, days): self.days = days
    def compare_to(self, o): return self.days - o.days
    def __eq__(self, o): return isinstance(o, DayYMD) and self.days == o.days
    def __ne__(self, o): return not self.__eq__(o)
    def __hash__(self): return 0
    def _with_calendar_ordinal(self, ordinal): return DayYMDC(self.days, ordinal)
    def _with_calendar(self, cal): return DayYMDC(self.days, cal._ordinal)
class DayYMDC:
    def __init__(self, days, ordinal): self.days, self._calendar_ordinal = days, ordinal
    def _to_year_month_day(self): return DayYMD(self.days)
    def __eq__(self, o): return isinstance(o, DayYMDC) and self.days == o.days and self._calendar_ordinal == o._calendar_ordinal
    def __hash__(self): return 0
class DayCalc:
    _min_year, _max_year = host.min_year, host.max_year
    def _get_days_since_epoch(self, ymd): return ymd.days
    def compare(self, a, b): return a.compare_to(b)
    def _get_year_month_day(self, *, days_since_epoch=None, **kw): return DayYMD(days_since_epoch)
def mkdate(days): return LocalDate._ctor(year_month_day_calendar=DayYMDC(days, host._ordinal))
# contract stub for day addition on the abstract calendar (C09.plusdays is the lemma that real calendars satisfy it)
register_patch(_FixedLengthDatePeriodField.add, lambda self, local_date, value: mkdate(local_date._days_since_epoch + value * self._FixedLengthDatePeriodField__unit_days))

# message stub: the local date-time's repr (culture-dependent formatting) is not the subject
LocalDateTime.__repr__ = lambda self: "<ldt>"
LocalDateTime.__format__ = lambda self, spec: "<ldt>"
class SymZone(DateTimeZone):
    def __init__(self, intervals):
        super().__init__("sym", False, Offset.min_value, Offset.max_value); self.intervals = intervals
    def get_zone_interval(self, instant):
        for iv in self.intervals:
            if instant in iv: return iv
        raise AssertionError("uncovered")

def setup(d1, n1, o0, o1, ld, ln):
    host._CalendarSystem__year_month_day_calculator = DayCalc()
    lo, hi = host._min_days + 5, host._max_days - 5
    for d in (d1, ld): assume(lo <= d <= hi)
    for n in (n1, ln): assume(0 <= n < NPD)
    for o in (o0, o1): assume(-64800 <= o <= 64800)
    t1 = Instant._ctor(days=d1, nano_of_day=n1)
    ivs = [ZoneInterval(name="a", start=None, end=t1, wall_offset=Offset.from_seconds(o0), savings=Offset.zero),
           ZoneInterval(name="b", start=t1, end=None, wall_offset=Offset.from_seconds(o1), savings=Offset.zero)]
    return SymZone(ivs), d1 * NPD + n1, ld * NPD + ln

if which == 'lenient':
    def h(d1, n1, o0, o1, ld, ln):
        z, T1, L = setup(d1, n1, o0, o1, ld, ln)
        O0, O1 = o0 * 10**9, o1 * 10**9
        ldt = LocalDateTime._ctor(local_date=mkdate(ld), local_time=LocalTime._ctor(nanoseconds=ln))
        in0, in1 = L < T1 + O0, L >= T1 + O1
        r = z.at_leniently(ldt)
        got = r.to_instant()._time_since_epoch.to_nanoseconds()
        if in0 and in1:   exp = L - O0                 # ambiguous: earlier
        elif in0:         exp = L - O0
        elif in1:         exp = L - O1
        else:             exp = L - O0                 # skipped: shifted forward by the gap = interpret with the offset before
        ok = got == exp and r.zone is z
        # strict
        try:
            s = z.at_strictly(ldt); strict = 'ok'
        except SkippedTimeError: strict = 'skipped'
        except AmbiguousTimeError: strict = 'ambiguous'
        want = 'ambiguous' if (in0 and in1) else 'skipped' if not (in0 or in1) else 'ok'
        return ok and strict == want
    print('lenient+strict', explore(h, {k: int for k in ['d1', 'n1', 'o0', 'o1', 'ld', 'ln']}, timeout=T), flush=True)

if which == 'startofday':
    def h(d1, n1, o0, o1, ld):
        z, T1, _ = setup(d1, n1, o0, o1, ld, 0)
        O0, O1 = o0 * 10**9, o1 * 10**9
        date = mkdate(ld)
        D0, D1 = ld * NPD, (ld + 1) * NPD      # local range of the date
        # instants whose local date is `date`: in interval 0: [D0-O0, min(D1-O0, T1)) ; in interval 1: [max(D0-O1, T1), D1-O1)
        a_lo, a_hi = D0 - O0, min(D1 - O0, T1)
        b_lo, b_hi = max(D0 - O1, T1), D1 - O1
        has_a, has_b = a_lo < a_hi, b_lo < b_hi
        try:
            r = z.at_start_of_day(date); got = r.to_instant()._time_since_epoch.to_nanoseconds()
        except SkippedTimeError:
            return not has_a and not has_b
        exp = a_lo if has_a else b_lo
        return (has_a or has_b) and got == exp
    print('startofday', explore(h, {k: int for k in ['d1', 'n1', 'o0', 'o1', 'ld']}, timeout=T), flush=True)
