from symx import *
from pyoda_time.calendars._gregorian_year_month_day_calculator import _GregorianYearMonthDayCalculator
from pyoda_time.calendars._julian_year_month_day_calculator import _JulianYearMonthDayCalculator
from pyoda_time.calendars._year_start_cache_entry import _YearStartCacheEntry
from pyoda_time.utility import _csharp_compatibility as cc

def _tzd(x, y):
    q = abs(x) // abs(y)
    return q if (x >= 0) == (y >= 0) else -q
register_patch(cc._towards_zero_division, _tzd)
_G = _GregorianYearMonthDayCalculator()
_J = _JulianYearMonthDayCalculator()

def rt(calc):
    def h(days):
        with NoTracing():
            calc._YearMonthDayCalculator__year_cache = _YearStartCacheEntry._create_cache()
        assume(-4371222 <= days <= 2932896)
        ymd = calc._get_year_month_day_from_days_since_epoch(days)
        return calc._get_days_since_epoch(ymd) == days
    return h
print(explore(rt(_J), {'days': int}, timeout=120))
print(explore(rt(_G), {'days': int}, timeout=120))
