from symx import *
from pyoda_time.calendars._gregorian_year_month_day_calculator import _GregorianYearMonthDayCalculator
from pyoda_time.calendars._julian_year_month_day_calculator import _JulianYearMonthDayCalculator
from pyoda_time.calendars._coptic_year_month_day_calculator import _CopticYearMonthDayCalculator
from pyoda_time.calendars._year_month_day_calculator import _YearMonthDayCalculator
from pyoda_time.utility import _csharp_compatibility as cc

def _tzd(x, y):
    q = abs(x) // abs(y)
    return q if (x >= 0) == (y >= 0) else -q
register_patch(cc._towards_zero_division, _tzd)
register_patch(_YearMonthDayCalculator._get_start_of_year_in_days, lambda self, year: self._calculate_start_of_year_days(year))
_G = _GregorianYearMonthDayCalculator()
_J = _JulianYearMonthDayCalculator()
_C = _CopticYearMonthDayCalculator()

def rt(calc, lo, hi):
    def h(days):
        assume(lo <= days <= hi)
        ymd = calc._get_year_month_day_from_days_since_epoch(days)
        return calc._get_days_since_epoch(ymd) == days
    return h
print(explore(rt(_J, -4371222, 2932896), {'days': int}, timeout=300))
print(explore(rt(_C, -615558, 2932896), {'days': int}, timeout=300))
print(explore(rt(_G, -4371222, 2932896), {'days': int}, timeout=300))
