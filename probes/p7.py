import sys
from symx import *
import bitops; bitops.install()
from pyoda_time.calendars._gregorian_year_month_day_calculator import _GregorianYearMonthDayCalculator
from pyoda_time.calendars._julian_year_month_day_calculator import _JulianYearMonthDayCalculator
from pyoda_time.calendars._coptic_year_month_day_calculator import _CopticYearMonthDayCalculator
from pyoda_time.calendars._year_month_day_calculator import _YearMonthDayCalculator
from pyoda_time.utility import _csharp_compatibility as cc

def _tzd(x, y):
    q = abs(x) // abs(y)
    return q if (x >= 0) == (y >= 0) else -q
register_patch(cc._towards_zero_division, _tzd)
register_patch(_YearMonthDayCalculator._get_start_of_year_in_days, lambda self, year: self._calculate_start_of_year_days(year))
C = {'G': _GregorianYearMonthDayCalculator(), 'J': _JulianYearMonthDayCalculator(), 'C': _CopticYearMonthDayCalculator()}
calc = C[sys.argv[1]]
lo, hi = calc._min_year, calc._max_year

def split(year, doy):
    assume(lo <= year <= hi)
    assume(1 <= doy <= calc._get_days_in_year(year))
    ymd = calc._get_year_month_day_from_year_and_day_of_year(year, doy)
    y, m, d = ymd._year, ymd._month, ymd._day
    return (y == year and 1 <= m <= calc._get_months_in_year(year) and 1 <= d <= calc._get_days_in_month(year, m)
            and calc._get_days_from_start_of_year_to_start_of_month(year, m) + d == doy)

def yearlen(year):
    assume(lo - 1 <= year <= hi)
    return calc._calculate_start_of_year_days(year + 1) - calc._calculate_start_of_year_days(year) == calc._get_days_in_year(year)

dlo, dhi = calc._calculate_start_of_year_days(lo), calc._calculate_start_of_year_days(hi + 1) - 1
def getyear(days):
    assume(dlo <= days <= dhi)
    y, z = calc._get_year(days)
    s = calc._calculate_start_of_year_days(y)
    return lo <= y <= hi and s <= days and z == days - s and z < calc._get_days_in_year(y)

for name, h, types in [('split', split, {'year': int, 'doy': int}), ('yearlen', yearlen, {'year': int}), ('getyear', getyear, {'days': int})]:
    print(name, explore(h, types, timeout=200), bitops.STATS, flush=True)
