import sys, collections
from symx import *
import symx
import bitops; bitops.install()
from pyoda_time.calendars._julian_year_month_day_calculator import _JulianYearMonthDayCalculator
from pyoda_time.calendars._year_month_day_calculator import _YearMonthDayCalculator
from pyoda_time.utility import _csharp_compatibility as cc
import traceback
def _tzd(x, y):
    q = abs(x) // abs(y)
    return q if (x >= 0) == (y >= 0) else -q
register_patch(cc._towards_zero_division, _tzd)
calc = _JulianYearMonthDayCalculator()
lo, hi = calc._min_year, calc._max_year
sites = collections.Counter()
import crosshair.util as cu
orig_init = cu.IgnoreAttempt.__init__
def init(self, *a):
    st = traceback.extract_stack(limit=6)
    sites[' <- '.join(f"{f.name}:{f.lineno}" for f in reversed(st[:-1]))] += 1
    orig_init(self, *a)
cu.IgnoreAttempt.__init__ = init
def split(year, doy):
    assume(lo <= year <= hi)
    assume(1 <= doy <= calc._get_days_in_year(year))
    ymd = calc._get_year_month_day_from_year_and_day_of_year(year, doy)
    y, m, d = ymd._year, ymd._month, ymd._day
    return (y == year and 1 <= m <= calc._get_months_in_year(year) and 1 <= d <= calc._get_days_in_month(year, m)
            and calc._get_days_from_start_of_year_to_start_of_month(year, m) + d == doy)
print(explore(split, {'year': int, 'doy': int}, timeout=40), bitops.STATS, flush=True)
for k, v in sites.most_common(8): print(v, k)
