import sys
from symx import *
import bitops; bitops.install()
from pyoda_time import Duration, Instant, Offset, PyodaConstants
from pyoda_time.utility import _csharp_compatibility as cc
def _tzd(x, y):
    q = abs(x) // abs(y)
    return q if (x >= 0) == (y >= 0) else -q
register_patch(cc._towards_zero_division, _tzd)
from pyoda_time.utility._preconditions import _Preconditions
def _throw(param_name, value, lo, hi):
    raise ValueError("out of range")
register_patch(_Preconditions._throw_argument_out_of_range_exception, _throw)
NPD = PyodaConstants.NANOSECONDS_PER_DAY
MIN, MAX = Duration._MIN_NANOSECONDS, Duration._MAX_NANOSECONDS

def from_to(n):
    assume(MIN <= n <= MAX)
    d = Duration.from_nanoseconds(n)
    return d.to_nanoseconds() == n and 0 <= d._nanosecond_of_floor_day < NPD and d._floor_days * NPD + d._nanosecond_of_floor_day == n

def add(a, b):
    assume(MIN <= a <= MAX); assume(MIN <= b <= MAX)
    x, y = Duration.from_nanoseconds(a), Duration.from_nanoseconds(b)
    try:
        r = x + y
    except ValueError:
        return not (MIN <= a + b <= MAX)
    return r.to_nanoseconds() == a + b and 0 <= r._nanosecond_of_floor_day < NPD and MIN <= a + b <= MAX

def neg(a):
    assume(MIN <= a <= MAX)
    x = Duration.from_nanoseconds(a)
    try:
        r = -x
    except ValueError:
        return not (MIN <= -a <= MAX)
    return r.to_nanoseconds() == -a and 0 <= r._nanosecond_of_floor_day < NPD and MIN <= -a <= MAX

def comps(a):
    assume(MIN <= a <= MAX)
    x = Duration.from_nanoseconds(a)
    t = lambda p, q: (p // q if p >= 0 else -((-p) // q))
    nod = a - t(a, NPD) * NPD
    return (x.days == t(a, NPD) and x.nanosecond_of_day == nod and x.hours == t(nod, 3600 * 10**9)
            and x.minutes == t(nod, 60 * 10**9) - t(nod, 3600*10**9) * 60
            and x.seconds == t(nod, 10**9) - t(nod, 60*10**9) * 60
            and x.subsecond_nanoseconds == nod - t(nod, 10**9) * 10**9)

def from_hours(h):
    lo, hi = Duration._MIN_DAYS * 24, (Duration._MAX_DAYS + 1) * 24 - 1
    try:
        d = Duration.from_hours(h)
    except ValueError:
        return not (lo <= h <= hi)
    return lo <= h <= hi and d.to_nanoseconds() == h * 3600 * 10**9 and 0 <= d._nanosecond_of_floor_day < NPD

for name, h, types in [('from_to', from_to, {'n': int}), ('add', add, {'a': int, 'b': int}), ('neg', neg, {'a': int}), ('comps', comps, {'a': int}), ('from_hours', from_hours, {'h': int})]:
    print(name, explore(h, types, timeout=120), flush=True)
