import ast,sys
for f in sys.argv[1:]:
    src=open(f).read()
    t=ast.parse(src)
    for n in ast.walk(t):
        if isinstance(n,(ast.FunctionDef,ast.ClassDef,ast.AsyncFunctionDef,ast.Module)):
            b=n.body
            if b and isinstance(b[0],ast.Expr) and isinstance(getattr(b[0],'value',None),ast.Constant) and isinstance(b[0].value.value,str):
                if len(b)>1: n.body=b[1:]
                else: n.body=[ast.Pass()]
    # drop overload stubs
    class T(ast.NodeTransformer):
        def visit_FunctionDef(self,n):
            self.generic_visit(n)
            if any((isinstance(d,ast.Name) and d.id=='overload') for d in n.decorator_list): return None
            return n
    t=T().visit(t)
    print("#### ",f)
    print(ast.unparse(t))
