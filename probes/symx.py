"""Probe driver: exhaustive path exploration of a harness over the real code using CrossHair's engine."""
import sys, time, traceback
from time import process_time
import z3
from crosshair.core import Patched, proxy_for_type, realize, deep_realize, ExceptionFilter, register_patch
from crosshair.core_and_libs import NoTracing, ResumedTracing  # noqa
from crosshair.statespace import (StateSpace, StateSpaceContext, RootNode, CallAnalysis,
                                  VerificationStatus, context_statespace)
from crosshair.tracers import COMPOSITE_TRACER
from crosshair.util import IgnoreAttempt, UnexploredPath, CrossHairInternal
from crosshair.condition_parser import condition_parser
from crosshair.options import AnalysisKind

class Result:
    def __init__(s): s.paths=0; s.confirmed=0; s.unknown=0; s.ignored=0; s.exhausted=False; s.cex=None; s.wall=0.0; s.exc=None
    def __repr__(s): return f"Result(paths={s.paths}, confirmed={s.confirmed}, unknown={s.unknown}, ignored={s.ignored}, exhausted={s.exhausted}, cex={s.cex}, exc={s.exc}, wall={s.wall:.2f})"

def explore(harness, argtypes, timeout=60.0, per_path_timeout=10.0, max_iter=10**6):
    """harness(**symbolic args) -> truthy if property holds on this path; raise IgnoreAttempt (via assume) to discard."""
    res = Result(); t0=time.time(); start = process_time()
    root = RootNode()
    for i in range(max_iter):
        now = process_time()
        if now - start > timeout: break
        space = StateSpace(execution_deadline=now+per_path_timeout, model_check_timeout=per_path_timeout/2, search_root=root)
        res.paths += 1
        with condition_parser([AnalysisKind.asserts]), Patched(), COMPOSITE_TRACER, NoTracing(), StateSpaceContext(space):
            status = None
            try:
                args = {n: proxy_for_type(t, n) for n, t in argtypes.items()}
                ok = None
                with ExceptionFilter() as ef, ResumedTracing():
                    ok = bool(harness(**args))
                if ef.ignore:
                    status = None; res.ignored += 1   # ef.analysis
                    if ef.analysis.verification_status == VerificationStatus.UNKNOWN:
                        status = VerificationStatus.UNKNOWN
                elif ef.user_exc is not None:
                    e, tb = ef.user_exc
                    with ResumedTracing():
                        space.detach_path(e)
                        cargs = {k: deep_realize(v) for k, v in args.items()}
                    res.cex = cargs; res.exc = (type(e).__name__, str(e), ''.join(tb.format()[-3:]))
                    status = VerificationStatus.REFUTED
                elif ok:
                    status = VerificationStatus.CONFIRMED; res.confirmed += 1
                else:
                    with ResumedTracing():
                        space.detach_path()
                        cargs = {k: deep_realize(v) for k, v in args.items()}
                    res.cex = cargs
                    status = VerificationStatus.REFUTED
            except IgnoreAttempt:
                status = None; res.ignored += 1
            except UnexploredPath:
                status = VerificationStatus.UNKNOWN
            if status == VerificationStatus.UNKNOWN: res.unknown += 1
            top, exhausted = space.bubble_status(CallAnalysis(status))
        if status == VerificationStatus.REFUTED: break
        if exhausted:
            res.exhausted = True; break
    res.wall = time.time()-t0
    return res

def assume(c):
    if not c:
        raise IgnoreAttempt("assume")
