import time
from pyoda_time import *
t0=time.time()
prov = DateTimeZoneProviders.tzdb
ids = list(prov.ids)
print(len(ids), prov.version_id)
mn = None; tot=0; maxdelta=None
cut = Instant.from_utc(2040,1,1,0,0)
for i in ids:
    z = prov[i]
    prev=None
    for iv in z.get_zone_intervals(start=Instant.min_value, end=cut):
        tot+=1
        if iv.has_start and iv.has_end:
            d = iv.duration
            if mn is None or d < mn[0]: mn=(d,i,iv)
        if prev is not None:
            delta = abs(iv.wall_offset.seconds-prev.wall_offset.seconds)
            if maxdelta is None or delta>maxdelta[0]: maxdelta=(delta,i,iv)
        prev=iv
print(tot, mn, maxdelta, time.time()-t0)
