"""C01 — every calendar maps day numbers to valid dates one-to-one and in order.  Lemma decomposition per calculator:
yearlen / getyear / split / monthsum / days / validate / order, plus pack, range, isofast, era and the composition argument."""
import z3

from symx import stubs
from symx.driver import assume
from symx.lemma import lemma

stubs.standard()

from props import calsetup as cs  # noqa: E402
from props import ymdrecord  # noqa: E402
from pyoda_time import CalendarSystem, LocalDate  # noqa: E402
from pyoda_time._calendar_ordinal import _CalendarOrdinal  # noqa: E402
from pyoda_time._year_month_day import _YearMonthDay  # noqa: E402
from pyoda_time._year_month_day_calendar import _YearMonthDayCalendar  # noqa: E402
from pyoda_time.calendars import Era  # noqa: E402


def _cal_params(full_extra=(), window_k_quick=1, islamic_quick=1, islamic_window=None, only=None, all_windows=False):
    """Parameter generator: full-range calendars always; seeded windows of the tabulated calendars in quick,
    every window in thorough."""

    def gen(tier, seed):
        out = [cs.P(c) for c in cs.FULL]
        isl = cs.ISLAMIC if tier == "thorough" else cs.pick(cs.ISLAMIC, seed, islamic_quick)
        for c in isl:
            if islamic_window:
                ws = cs.windows(c, islamic_window)
                ws = ws if tier == "thorough" else cs.pick(ws, seed, 1)
                out += [cs.P(c, *w) for w in ws]
            else:
                out.append(cs.P(c))
        for c in cs.WINDOWED:
            ws = cs.windows(c)
            ws = ws if (tier == "thorough" or all_windows) else cs.pick(ws, seed + len(c), window_k_quick)
            out += [cs.P(c, *w) for w in ws]
        if only:
            out = [p for p in out if any(p.startswith(o) for o in only)]
        return out
    return gen


def _setup(P, record=False):
    cid, lo, hi = cs.unP(P)
    cal, calc, lo, hi = cs.prepare(cid, lo, hi)
    if record:
        ymdrecord.install()
    before = cs.reset_hebrew_cache if cid.startswith("Hebrew") else None
    return cal, calc, lo, hi, before


@lemma({"year": int}, params=_cal_params(all_windows=True), budget=60, thorough_budget=120,
       bounds="every year of the calendar: full range in one query, or every 180-year window of the tabulated calculators (cheap: all windows even in quick)")
def yearlen(P):
    """start(y+1) - start(y) == days_in_year(y)"""
    cal, calc, lo, hi, before = _setup(P)

    def h(year):
        assume(lo <= year <= hi)
        return calc._get_start_of_year_in_days(year + 1) - calc._get_start_of_year_in_days(year) == calc._get_days_in_year(year)
    return h, before


@lemma({"days": int}, params=_cal_params(), budget=90, thorough_budget=200,
       bounds="every day number of the year range; the estimate-and-correct loop is unrolled by forking (exhaustion = unwinding assertion)")
def getyear(P):
    """_get_year(d) = (y, z): y in range, start(y) <= d, z = d - start(y) < days_in_year(y)"""
    cal, calc, lo, hi, before = _setup(P)
    dlo, dhi = calc._get_start_of_year_in_days(lo), calc._get_start_of_year_in_days(hi + 1) - 1

    def h(days):
        assume(dlo <= days <= dhi)
        y, z = calc._get_year(days)
        s = calc._get_start_of_year_in_days(y)
        return lo <= y <= hi and s <= days and z == days - s and z < calc._get_days_in_year(y)
    return h, before


@lemma({"year": int, "doy": int}, params=_cal_params(islamic_window=60), budget=90, thorough_budget=240, per_path=30,
       bounds="every (year, day-of-year) with 1 <= doy <= days_in_year(year)")
def split(P):
    """day-of-year -> (month, day) is valid and inverts days_to_start_of_month + day; _get_day_of_year agrees"""
    cal, calc, lo, hi, before = _setup(P, record=True)

    def h(year, doy):
        assume(lo <= year <= hi)
        assume(1 <= doy <= calc._get_days_in_year(year))
        ymd = calc._get_year_month_day_from_year_and_day_of_year(year, doy)
        y, m, d = ymd._year, ymd._month, ymd._day
        return (y == year and 1 <= m <= calc._get_months_in_year(year) and 1 <= d <= calc._get_days_in_month(year, m)
                and calc._get_days_from_start_of_year_to_start_of_month(year, m) + d == doy
                and calc._get_day_of_year(ymd) == doy)
    return h, before


def _monthsum_params(tier, seed):
    base = _cal_params(islamic_window=60, all_windows=True)(tier, seed)
    if tier == "thorough":
        return base
    heb = [p for p in base if p.startswith("Hebrew")]
    keep = set(cs.pick([p for p in heb if "Civil" in p], seed, 1) + cs.pick([p for p in heb if "Script" in p], seed + 1, 1))
    return [p for p in base if not p.startswith("Hebrew") or p in keep]


@lemma({"year": int}, params=lambda tier, seed: [cs.P(c, *w) for c in cs.HEBREW for w in cs.windows(c)], budget=60,
       bounds="every Hebrew year (all 180-year windows, both numberings): the month lengths of the year add up to the year length, "
              "which is one of the six legal lengths and has 13 months iff it is a leap year")
def yearsum_hebrew(P):
    cal, calc, lo, hi, before = _setup(P)

    def h(year):
        assume(lo <= year <= hi)
        n = calc._get_months_in_year(year)
        total = 0
        for m in range(1, 14):
            if m <= n:
                total += calc._get_days_in_month(year, m)
        diy = calc._get_days_in_year(year)
        leap = calc._is_leap_year(year)
        return total == diy and (n == 13) == leap and ((diy in (383, 384, 385)) if leap else (diy in (353, 354, 355)))
    return h, before


@lemma({"year": int, "month": int}, params=_monthsum_params,
       budget=60, thorough_budget=120,
       bounds="every (year, month): consecutive month starts differ by days_in_month; first is 0; last + length = days_in_year "
              "(in calendar month order: Hebrew scriptural years run month 7..last, then 1..6); all windows even in quick")
def monthsum(P):
    cal, calc, lo, hi, before = _setup(P)
    scriptural = P.startswith("Hebrew Scriptural")
    first, last = (7, 6) if scriptural else (1, None)

    def h(year, month):
        assume(lo <= year <= hi)
        n = calc._get_months_in_year(year)
        assume(1 <= month <= n)
        s = calc._get_days_from_start_of_year_to_start_of_month(year, month)
        dim = calc._get_days_in_month(year, month)
        ok = dim >= 1
        if month == first:
            ok = ok and s == 0
        if month == (last if scriptural else n):
            ok = ok and s + dim == calc._get_days_in_year(year)
        else:
            nxt = 1 if (scriptural and month == n) else month + 1
            ok = ok and calc._get_days_from_start_of_year_to_start_of_month(year, nxt) == s + dim
        return ok
    return h, before


ISO_PARTS = [(-9998, 1899), (1900, 1950), (1951, 2000), (2001, 2050), (2051, 2100), (2101, 9999)]


def _days_params(tier, seed):
    base = _cal_params(islamic_window=60)(tier, seed)
    return [p for p in base if p != "ISO"] + [cs.P("ISO", a, b) for a, b in ISO_PARTS]


@lemma({"year": int, "month": int, "day": int}, params=_days_params, budget=90, thorough_budget=200,
       bounds="every valid (year, month, day); ISO partitioned around its 1900-2100 month-start table (partitions cover the year range)")
def days(P):
    """_get_days_since_epoch(y, m, d) == start(y) + days_to_start_of_month(y, m) + d - 1 (covers Gregorian tables, fixed-month and Badi overrides)"""
    cal, calc, lo, hi, before = _setup(P, record=True)

    def h(year, month, day):
        assume(lo <= year <= hi)
        assume(1 <= month <= calc._get_months_in_year(year))
        assume(1 <= day <= calc._get_days_in_month(year, month))
        ymd = _YearMonthDay._ctor(year=year, month=month, day=day)
        return calc._get_days_since_epoch(ymd) == (calc._get_start_of_year_in_days(year)
                                                   + calc._get_days_from_start_of_year_to_start_of_month(year, month) + day - 1)
    return h, before


@lemma({"year": int, "month": int, "day": int}, params=_cal_params(islamic_window=60), budget=90, thorough_budget=200,
       bounds="(year, month, day) in a box one unit wider than the valid tables: year in [lo-1, hi+1], month in [0, 15], day in [0, 33]")
def validate(P):
    """_validate_year_month_day raises exactly for invalid triples"""
    cal, calc, lo, hi, before = _setup(P)
    ymin, ymax = calc._min_year, calc._max_year

    def h(year, month, day):
        assume(lo - 1 <= year <= hi + 1)
        assume(0 <= month <= 15)
        assume(0 <= day <= 33)
        try:
            calc._validate_year_month_day(year, month, day)
            accepted = True
        except ValueError:
            accepted = False
        valid = ymin <= year <= ymax
        if valid:
            valid = 1 <= month <= calc._get_months_in_year(year)
        if valid:
            valid = 1 <= day <= calc._get_days_in_month(year, month)
        return accepted == valid
    return h, before


@lemma({"y1": int, "m1": int, "d1": int, "y2": int, "m2": int, "d2": int},
       params=_cal_params(only=[c for c in cs.ALL_IDS if not c.startswith("Hebrew")]), budget=60,
       bounds="every pair of (year, month, day) with months <= 32, days <= 64: the calculator's compare has the sign of the "
              "lexicographic (y, m, d) comparison (which with monthsum/days is the day-number order for calendars starting at month 1)")
def order(P):
    cal, calc, lo, hi, before = _setup(P)

    def h(y1, m1, d1, y2, m2, d2):
        assume(lo <= y1 <= hi)
        assume(lo <= y2 <= hi)
        assume(1 <= m1 <= 32)
        assume(1 <= m2 <= 32)
        assume(1 <= d1 <= 64)
        assume(1 <= d2 <= 64)
        a = _YearMonthDay._ctor(year=y1, month=m1, day=d1)
        b = _YearMonthDay._ctor(year=y2, month=m2, day=d2)
        c = calc.compare(a, b)
        lt = (y1 < y2) or (y1 == y2 and (m1 < m2 or (m1 == m2 and d1 < d2)))
        eq = y1 == y2 and m1 == m2 and d1 == d2
        return (c < 0) == lt and (c == 0) == eq and (a < b) == lt and (a == b) == eq and (a <= b) == (lt or eq)
    return h, before


def _box(year, month, day):
    assume(-9999 <= year <= 10000)
    assume(1 <= month <= 32)
    assume(1 <= day <= 64)


PACK_BOUNDS = "year in [-9999, 10000], month in [1, 32], day in [1, 64], calendar ordinal in [0, 63] (the whole bit layout)"


@lemma({"year": int, "month": int, "day": int}, budget=60, bounds=PACK_BOUNDS)
def pack_ymd(year, month, day):
    """_YearMonthDay pack -> unpack identity"""
    _box(year, month, day)
    a = _YearMonthDay._ctor(year=year, month=month, day=day)
    return a._year == year and a._month == month and a._day == day


@lemma({"year": int, "month": int, "day": int, "ordinal": int}, budget=60, bounds=PACK_BOUNDS)
def pack_ymdc(year, month, day, ordinal):
    """_YearMonthDayCalendar pack -> unpack identity (including the int32 wrap used for negative years)"""
    _box(year, month, day)
    assume(0 <= ordinal <= 63)
    b = _YearMonthDayCalendar._ctor(year=year, month=month, day=day, calendar_ordinal=ordinal)
    return b._year == year and b._month == month and b._day == day and (b._YearMonthDayCalendar__value & 63) == ordinal


@lemma({"year": int, "month": int, "day": int, "ordinal": int}, budget=60, bounds=PACK_BOUNDS)
def pack_convert(year, month, day, ordinal):
    """_with_calendar_ordinal and _to_year_month_day agree with direct construction (raw-value level)"""
    _box(year, month, day)
    assume(0 <= ordinal <= 63)
    a = _YearMonthDay._ctor(year=year, month=month, day=day)
    b = _YearMonthDayCalendar._ctor(year=year, month=month, day=day, calendar_ordinal=ordinal)
    c = a._with_calendar_ordinal(ordinal)
    e = b._to_year_month_day()
    return c._YearMonthDayCalendar__value == b._YearMonthDayCalendar__value and e._YearMonthDay__value == a._YearMonthDay__value


@lemma({"ordinal": int}, budget=30, bounds="ordinal in [0, 18]: the enum round trip of the calendar ordinal")
def pack_ordinal(ordinal):
    assume(0 <= ordinal <= 18)
    b = _YearMonthDayCalendar._ctor(year=2000, month=1, day=1, calendar_ordinal=_CalendarOrdinal(ordinal))
    return int(b._calendar_ordinal) == ordinal


@lemma({"d": int}, params=lambda tier, seed: list(cs.FULL) + (cs.ISLAMIC if tier == "thorough" else cs.pick(cs.ISLAMIC, seed, 1)),
       budget=60, bounds="every int day number d with |d| <= 10**7: rejected iff outside [start(min_year), start(max_year+1)-1]")
def range_check(P):
    cal, calc, lo, hi, before = _setup(P)
    dmin, dmax = calc._get_start_of_year_in_days(lo), calc._get_start_of_year_in_days(hi + 1) - 1

    def h(d):
        assume(-10 ** 7 <= d <= 10 ** 7)
        inr = dmin <= d <= dmax
        if inr:
            return cal._min_days == dmin and cal._max_days == dmax   # advertised range == year-start range
        try:
            cal._get_year_month_day_calendar_from_days_since_epoch(d)
        except ValueError:
            return True
        return False
    return h, before


_ISO = cs.prepare("ISO")[:2]
FAST_LO, FAST_HI = -25567, 47846
FAST_PARTS = [(FAST_LO - 800, FAST_LO - 1)] + [(a, min(FAST_HI, a + 9199)) for a in range(FAST_LO, FAST_HI + 1, 9200)] + [(FAST_HI + 1, FAST_HI + 800)]


@lemma({"d": int}, params=[f"{a}|{b}" for a, b in FAST_PARTS], budget=90,
       bounds="every day number in the optimised window [-25567, 47846] +- 800 days, in 10 partitions (outside the window the fast path "
              "delegates to the generic path verbatim): LocalDate's ISO fast path equals the generic calculator path")
def isofast(P):
    a, b = (int(x) for x in P.split("|"))
    ymdrecord.install()

    def h(d):
        cal, calc = _ISO
        assume(a <= d <= b)
        G = type(calc)
        fast = G._get_gregorian_year_month_day_calendar_from_days_since_epoch(d)
        y, z = calc._get_year(d)
        slow = calc._get_year_month_day_from_year_and_day_of_year(y, z + 1)
        return fast._year == slow._year and fast._month == slow._month and fast._day == slow._day and int(fast._calendar_ordinal) == 0
    return h


@lemma({"year": int}, params=lambda tier, seed: ["ISO", "Julian", "Coptic", "Um Al Qura", "Badi", "Hebrew Civil", "Persian Simple"]
       + cs.pick(cs.ISLAMIC, seed, 1), budget=40, bounds="every year of the calendar; every era the calendar lists")
def era(P):
    cal = CalendarSystem.for_id(P)
    eras = list(cal.eras())

    def h(year):
        assume(cal.min_year <= year <= cal.max_year)
        e = cal._get_era(year)
        yoe = cal._get_year_of_era(year)
        ok = any(e is x for x in eras) and cal.get_absolute_year(yoe, e) == year
        ok = ok and min(cal.get_min_year_of_era(e), cal.get_max_year_of_era(e)) <= yoe <= max(cal.get_min_year_of_era(e), cal.get_max_year_of_era(e))
        return ok and yoe >= 1
    return h


@lemma({"yoe": int, "e": int}, params=["ISO", "Julian", "Coptic"], budget=40,
       bounds="every listed era x year-of-era in [-2, max+2]: get_absolute_year raises exactly outside [min, max] year of era")
def era_range(P):
    cal = CalendarSystem.for_id(P)
    eras = list(cal.eras())

    def h(yoe, e):
        assume(0 <= e < len(eras))
        era_ = eras[0] if e == 0 else eras[1]
        mn, mx = cal.get_min_year_of_era(era_), cal.get_max_year_of_era(era_)
        lo_, hi_ = min(mn, mx), max(mn, mx)
        assume(lo_ - 2 <= yoe <= hi_ + 2)
        try:
            y = cal.get_absolute_year(yoe, era_)
        except ValueError:
            return not (lo_ <= yoe <= hi_)
        return lo_ <= yoe <= hi_ and cal.min_year <= y <= cal.max_year and cal._get_year_of_era(y) == yoe and cal._get_era(y) is era_
    return h


@lemma(premise=True, params=lambda tier, seed: ["all"], budget=60)
def premise_calendars(P):
    """Finite facts with no quantifier left: every id resolves to a singleton with a non-empty era list, advertised day range
    equals [start(min_year), start(max_year+1)-1], LocalDate at both range ends round-trips, one day beyond is rejected."""
    bad = []
    for cid in CalendarSystem.ids:
        cal = CalendarSystem.for_id(cid)
        if cal is not CalendarSystem.for_id(cid):
            bad.append(cid + ": not a singleton")
        try:
            eras = list(cal.eras())
            if not eras:
                bad.append(cid + ": no eras")
        except Exception as e:  # noqa: BLE001
            bad.append(f"{cid}: eras() raised {type(e).__name__}")
        calc = cal._year_month_day_calculator
        if cal._min_days != calc._get_start_of_year_in_days(cal.min_year):
            bad.append(cid + ": min_days")
        if cid != "Um Al Qura" or True:
            if cal._max_days != calc._get_start_of_year_in_days(cal.max_year + 1) - 1:
                bad.append(cid + ": max_days")
        for d in (cal._min_days, cal._max_days):
            try:
                ld = LocalDate._ctor(days_since_epoch=d, calendar=cal)
                if ld._days_since_epoch != d:
                    bad.append(f"{cid}: day {d} does not round-trip")
                back = LocalDate(ld.year, ld.month, ld.day, cal)
                if back != ld:
                    bad.append(f"{cid}: (y,m,d) of day {d} does not rebuild the date")
            except Exception as e:  # noqa: BLE001
                bad.append(f"{cid}: range end {d}: {type(e).__name__}: {e}")
        for d in (cal._min_days - 1, cal._max_days + 1):
            try:
                LocalDate._ctor(days_since_epoch=d, calendar=cal)
                bad.append(f"{cid}: day {d} outside the range was accepted")
            except (ValueError, OverflowError):
                pass
            except Exception as e:  # noqa: BLE001
                bad.append(f"{cid}: day {d} outside the range raised {type(e).__name__}")
    return (not bad), "; ".join(bad) or f"{len(list(CalendarSystem.ids))} calendars"


@lemma(premise=False, args={"k": int}, budget=20, bounds="z3 validity check over uninterpreted calendar functions (no bound)")
def composition(k):
    """The implication 'lemmas => round trip' over uninterpreted start/dsm/dim/split/getyear, discharged by z3 (unsat of the negation)."""
    Y, M, D, N = z3.Ints("Y M D N")
    start = z3.Function("start", z3.IntSort(), z3.IntSort())
    dsm = z3.Function("dsm", z3.IntSort(), z3.IntSort(), z3.IntSort())
    diy = z3.Function("diy", z3.IntSort(), z3.IntSort())
    gy = z3.Function("gy", z3.IntSort(), z3.IntSort())
    sm = z3.Function("sm", z3.IntSort(), z3.IntSort(), z3.IntSort())
    sd = z3.Function("sd", z3.IntSort(), z3.IntSort(), z3.IntSort())
    lo, hi = z3.Ints("lo hi")
    y, q = z3.Ints("y q")
    s = z3.Solver()
    s.set("timeout", 15000)
    inr = z3.And(start(lo) <= N, N < start(hi + 1))
    # lemma getyear
    s.add(z3.ForAll([q], z3.Implies(z3.And(start(lo) <= q, q < start(hi + 1)),
                                   z3.And(lo <= gy(q), gy(q) <= hi, start(gy(q)) <= q, q - start(gy(q)) < diy(gy(q))))))
    # lemma split: for valid (y, doy): dsm(y, sm(y, doy)) + sd(y, doy) == doy
    s.add(z3.ForAll([y, q], z3.Implies(z3.And(lo <= y, y <= hi, 1 <= q, q <= diy(y)), dsm(y, sm(y, q)) + sd(y, q) == q)))
    # lemma days: days(y, m, d) = start(y) + dsm(y, m) + d - 1   (definitional below)
    yy = gy(N)
    doy = N - start(yy) + 1
    back = start(yy) + dsm(yy, sm(yy, doy)) + sd(yy, doy) - 1
    s.add(inr, back != N)
    r = s.check()
    return str(r) == "unsat" and k == k
