"""C02 — calendar dates denote the physical day their published definitions prescribe.

Oracle: the published arithmetic of each calendar, written here from Dershowitz & Reingold, "Calendrical Calculations" (fixed day
numbers R.D.; R.D. 1 = Monday 1 January 1 CE proleptic Gregorian; Unix day 0 = R.D. 719163), from the published leap-year lists of
the tabular Islamic variants and of the Persian 33-year cycle, and from the classical statement of the Hebrew calendar (molad
BaHaRaD, month of 29d 12h 793p, the four postponements, the 19-year cycle GUCHADZaT).  The real calculators' year starts, leap
rules, month lengths, month offsets and day numbers are compared with it SYMBOLICALLY over the whole year range.  Epochs are
derived from their published Julian/Gregorian dates through the Julian/Gregorian reference, not copied from the code."""
from symx import stubs
from symx.driver import assume
from symx.lemma import lemma

stubs.standard()

from props import calsetup as cs  # noqa: E402
from props import ymdrecord  # noqa: E402
from pyoda_time import CalendarSystem  # noqa: E402

RD_UNIX_EPOCH = 719163           # R.D. of 1970-01-01 (D&R); checked against the Gregorian reference in the premise


# ------------------------------------------------------------------------------------------------ references (published arithmetic)
def greg_leap(y):
    return y % 4 == 0 and (y % 100 != 0 or y % 400 == 0)


def jul_leap(y):
    return y % 4 == 0            # astronomical year numbering (year 0 = 1 BCE), as the library's Julian calendar uses


def gj_month_offset(m, leap):
    """days before month m in a Gregorian/Julian year (D&R: floor((367 m - 362) / 12), corrected after February)"""
    return (367 * m - 362) // 12 + (0 if m <= 2 else (-1 if leap else -2))


def greg_newyear(y):
    return 1 + 365 * (y - 1) + (y - 1) // 4 - (y - 1) // 100 + (y - 1) // 400


def jul_newyear(y):
    return -1 + 365 * (y - 1) + (y - 1) // 4          # Julian epoch: R.D. -1 (1 January 1 CE Julian = 30 December 0 Gregorian)


def gj_dim(m, leap):
    if m == 2:
        return 29 if leap else 28
    return 30 if m in (4, 6, 9, 11) else 31


def fixed_from_gregorian(y, m, d):
    return greg_newyear(y) + gj_month_offset(m, greg_leap(y)) + d - 1


def fixed_from_julian(y, m, d):
    return jul_newyear(y) + gj_month_offset(m, jul_leap(y)) + d - 1


COPTIC_EPOCH = fixed_from_julian(284, 8, 29)          # 1 Thout 1 AM = 29 August 284 CE (Julian)
ISLAMIC_EPOCH = {"Civil": fixed_from_julian(622, 7, 16), "Astronomical": fixed_from_julian(622, 7, 15)}
PERSIAN_EPOCH = {"Persian Arithmetic": fixed_from_julian(622, 3, 19),       # D&R: 19 March 622 CE (Julian)
                 "Persian Simple": fixed_from_gregorian(622, 3, 21)}        # the BCL calendar's documented epoch: 21 March 622 CE (Gregorian)
HEBREW_EPOCH = fixed_from_julian(-3760, 10, 7)        # 1 Tishri AM 1 = Monday 7 October 3761 BCE (Julian; astronomical year -3760)

ISLAMIC_LEAP = {              # leap years of the 30-year cycle (published lists)
    "Base15": (2, 5, 7, 10, 13, 15, 18, 21, 24, 26, 29),
    "Base16": (2, 5, 7, 10, 13, 16, 18, 21, 24, 26, 29),
    "Indian": (2, 5, 8, 10, 13, 16, 19, 21, 24, 27, 29),
    "HabashAlHasib": (2, 5, 8, 11, 13, 16, 19, 21, 24, 27, 30),
}
PERSIAN_SIMPLE_LEAP = (1, 5, 9, 13, 17, 22, 26, 30)   # of the 33-year cycle


def _in(v, values):
    r = False
    for x in values:
        r = r or v == x
    return r


def _count_le(v, values):
    """how many of `values` are <= v"""
    n = 0
    for x in values:
        n += 1 if v >= x else 0
    return n


def coptic_leap(y):
    return y % 4 == 3


def coptic_newyear(y):
    return COPTIC_EPOCH + 365 * (y - 1) + y // 4


def islamic_leap(pattern, y):
    p = y % 30
    return _in(p if p != 0 else 30, ISLAMIC_LEAP[pattern])


def islamic_newyear(pattern, epoch, y):
    c, p = (y - 1) // 30, (y - 1) % 30              # p complete years of the current cycle
    return ISLAMIC_EPOCH[epoch] + c * (30 * 354 + 11) + p * 354 + _count_le(p, ISLAMIC_LEAP[pattern])


def islamic_month_offset(m):
    return 29 * (m - 1) + m // 2


def islamic_dim(m, leap):
    if m == 12:
        return 30 if leap else 29
    return 30 if m % 2 == 1 else 29


def persian_simple_leap(y):
    return _in(y % 33, PERSIAN_SIMPLE_LEAP)


def persian_simple_newyear(y):
    c, p = (y - 1) // 33, (y - 1) % 33
    return PERSIAN_EPOCH["Persian Simple"] + c * (33 * 365 + 8) + p * 365 + _count_le(p, PERSIAN_SIMPLE_LEAP)


def persian_arith_leap(y):
    """Birashk / D&R arithmetic-persian-leap-year? (years > 0)"""
    yy = (y - 474) % 2820 + 474
    return ((yy + 38) * 31) % 128 < 31


def persian_arith_newyear(y):
    """D&R fixed-from-arithmetic-persian for 1 Farvardin (years > 0)"""
    y0 = y - 474
    yy = y0 % 2820 + 474
    return PERSIAN_EPOCH["Persian Arithmetic"] - 1 + 1029983 * (y0 // 2820) + 365 * (yy - 1) + (31 * yy - 5) // 128 + 1


def persian_month_offset(m):
    return 31 * (m - 1) if m <= 7 else 30 * (m - 1) + 6


def persian_dim(m, leap):
    if m <= 6:
        return 31
    if m <= 11:
        return 30
    return 30 if leap else 29


class Ref:
    """reference arithmetic of one calendar id: leap(y), newyear(y) [R.D.], month_offset(y, m), dim(y, m), months(y), first year claimed"""

    def __init__(self, cid):
        self.cid = cid
        self.first = None
        if cid in ("ISO", "Gregorian"):
            self.leap, self.newyear = greg_leap, greg_newyear
            self.month_offset = lambda y, m: gj_month_offset(m, greg_leap(y))
            self.dim = lambda y, m: gj_dim(m, greg_leap(y))
        elif cid == "Julian":
            self.leap, self.newyear = jul_leap, jul_newyear
            self.month_offset = lambda y, m: gj_month_offset(m, jul_leap(y))
            self.dim = lambda y, m: gj_dim(m, jul_leap(y))
        elif cid == "Coptic":
            self.leap, self.newyear = coptic_leap, coptic_newyear
            self.month_offset = lambda y, m: 30 * (m - 1)
            self.dim = lambda y, m: 30 if m <= 12 else (6 if coptic_leap(y) else 5)
        elif cid.startswith("Hijri"):
            epoch, pattern = cid.split(" ")[1].split("-")
            self.leap = lambda y: islamic_leap(pattern, y)
            self.newyear = lambda y: islamic_newyear(pattern, epoch, y)
            self.month_offset = lambda y, m: islamic_month_offset(m)
            self.dim = lambda y, m: islamic_dim(m, islamic_leap(pattern, y))
        elif cid == "Persian Simple":
            self.leap, self.newyear = persian_simple_leap, persian_simple_newyear
            self.month_offset = lambda y, m: persian_month_offset(m)
            self.dim = lambda y, m: persian_dim(m, persian_simple_leap(y))
        elif cid == "Persian Arithmetic":
            self.leap, self.newyear = persian_arith_leap, persian_arith_newyear
            self.month_offset = lambda y, m: persian_month_offset(m)
            self.dim = lambda y, m: persian_dim(m, persian_arith_leap(y))
            self.first = 475            # the anchor of the 2820-year cycle (the property claims the arithmetic calendar from there)
        else:
            raise KeyError(cid)
        self.months = 13 if cid == "Coptic" else 12

    def days_in_year(self, y):
        if self.cid in ("ISO", "Gregorian", "Julian", "Coptic") or self.cid.startswith("Persian"):
            return 366 if self.leap(y) else 365
        return 355 if self.leap(y) else 354

    def fixed(self, y, m, d):
        return self.newyear(y) + self.month_offset(y, m) + d - 1


CLOSED = ["ISO", "Gregorian", "Julian", "Coptic"]
ARITH = CLOSED + cs.ISLAMIC + ["Persian Simple", "Persian Arithmetic"]


def _ids(tier, seed, islamic=1):
    return CLOSED + list(cs.ISLAMIC) + ["Persian Simple", "Persian Arithmetic"]          # every variant in both tiers (each is cheap)


def _calc(cid):
    cal = CalendarSystem.for_id(cid)
    return cal, cal._year_month_day_calculator


def _year_range(cid, calc):
    lo = Ref(cid).first or calc._min_year
    return lo, calc._max_year


# ------------------------------------------------------------------------------------------------ leap years
@lemma({"y": int}, params=lambda tier, seed: _ids(tier, seed, 2), budget=120, per_path=30,
       bounds="every year of the calendar's range (Persian arithmetic from 475): _is_leap_year agrees with the published rule / leap-year list, "
              "and _get_days_in_year with the published year length")
def leap(P):
    cal, calc = _calc(P)
    ref = Ref(P)
    lo, hi = _year_range(P, calc)

    def h(y):
        assume(lo <= y <= hi)
        return bool(calc._is_leap_year(y)) == bool(ref.leap(y)) and calc._get_days_in_year(y) == ref.days_in_year(y)
    return h


# ------------------------------------------------------------------------------------------------ year starts
def _yearstart_params(tier, seed):
    out = [[c, 0, 0] for c in CLOSED]
    for c in cs.ISLAMIC:
        out += [[c, "cycle", k] for k in range(1, 31)]          # all 8 variants x all 30 cycle positions in both tiers (< 1 s each)
    for c in ("Persian Simple", "Persian Arithmetic"):
        lo = Ref(c).first or 1
        ws = [(a, min(9378, a + 511)) for a in range(lo, 9379, 512)]
        ws = ws if tier == "thorough" else [ws[(seed * 5 + j * 7) % len(ws)] for j in range(3)]
        out += [[c, a, b] for a, b in ws]
    return out


@lemma({"y": int}, params=_yearstart_params, budget=120, per_path=60,
       bounds="every year (and max_year + 1): the day number of the first day of the year equals published epoch + published year arithmetic.  "
              "ISO/Gregorian/Julian/Coptic: the closed form over the whole range in one query; Islamic: per position k in the 30-year cycle "
              "(year = 30 c + k, every cycle c; the calculator's accumulation loop then has a concrete trip count); Persian: the "
              "calculator's precomputed table against the closed form, in 512-year windows (quick: 3 seeded windows each; thorough: all)")
def yearstart(P):
    cid, a, b = P
    cal, calc = _calc(cid)
    ref = Ref(cid)
    lo, hi = _year_range(cid, calc)
    if cid.startswith("Persian"):
        cs.prepare("ISO")         # (installs the generic cache bypass only; the Persian table is read directly)
        for k in list(vars(calc)):
            if isinstance(getattr(calc, k), list) and len(getattr(calc, k)) > 40:
                setattr(calc, k, tuple(getattr(calc, k)))

        def h(y):
            assume(max(lo, a) <= y <= min(hi + 1, b))
            return calc._get_start_of_year_in_days(y) == ref.newyear(y) - RD_UNIX_EPOCH
        return h
    if a == "cycle":
        def h(y):                 # y stands for the cycle number c
            year = 30 * y + b
            assume(lo <= year <= hi + 1)
            return calc._calculate_start_of_year_days(year) == ref.newyear(year) - RD_UNIX_EPOCH
        return h

    def h(y):
        assume(lo <= y <= hi + 1)
        return calc._calculate_start_of_year_days(y) == ref.newyear(y) - RD_UNIX_EPOCH
    return h


# ------------------------------------------------------------------------------------------------ months
@lemma({"y": int, "m": int}, params=lambda tier, seed: _ids(tier, seed, 2), budget=150, per_path=30,
       bounds="every (year, month) of the calendar: number of months, days in the month and days from the start of the year to the start "
              "of the month agree with the published month lengths")
def months(P):
    cal, calc = _calc(P)
    ref = Ref(P)
    lo, hi = _year_range(P, calc)
    for k in list(vars(calc)) + [k for k in vars(type(calc))]:
        v = getattr(calc, k, None)
        if isinstance(v, list) and 10 < len(v) < 40:
            pass

    def h(y, m):
        assume(lo <= y <= hi)
        assume(1 <= m <= ref.months)
        mm = int(m)               # forks over the months (month tables are indexed concretely)
        if calc._get_months_in_year(y) != ref.months:
            return False
        if calc._get_days_in_month(y, mm) != ref.dim(y, mm):
            return False
        return calc._get_days_from_start_of_year_to_start_of_month(y, mm) == ref.month_offset(y, mm)
    return h


# ------------------------------------------------------------------------------------------------ whole dates
def _date_params(tier, seed):
    out = []
    for c in CLOSED:
        ms = range(1, 14 if c == "Coptic" else 13)
        # ISO / Gregorian: every month in both tiers (their 1900-2100 month-start table has per-month entries); others: 3 seeded months in quick
        ms = ms if (tier == "thorough" or c in ("ISO", "Gregorian")) else [1 + (seed + j * 5) % 12 for j in range(3)]
        out += [[c, m] for m in ms]
    return out


@lemma({"y": int, "d": int}, params=_date_params, budget=150, per_path=40,
       bounds="every valid (year, day) of the given month, whole year range (ISO, Gregorian, Julian, Coptic; quick: 3 seeded months each): "
              "the calculator's _get_days_since_epoch (including ISO's 1900-2100 month-start table) equals the published fixed-date "
              "formula; ISO day-of-week equals the published weekday of that fixed date")
def date(P):
    cid, m = P
    cal, calc, _lo, _hi = cs.prepare(cid)
    ymdrecord.install()
    ref = Ref(cid)
    lo, hi = _year_range(cid, calc)

    def h(y, d):
        assume(lo <= y <= hi)
        assume(1 <= d <= ref.dim(y, m))
        ymd = ymdrecord.YMD(y, m, d)
        rd = ref.fixed(y, m, d)
        if calc._get_days_since_epoch(ymd) != rd - RD_UNIX_EPOCH:
            return False
        if cid in ("ISO", "Gregorian"):
            return int(cal._get_day_of_week(ymd)) == (rd - 1) % 7 + 1       # R.D. 1 is a Monday; ISO weekday 1 = Monday
        return True
    return h


# ------------------------------------------------------------------------------------------------ ISO against the standard library
@lemma({"y": int, "d": int}, params=lambda tier, seed: list(range(1, 13)),
       budget=150, per_path=40,
       bounds="every valid ISO (year, day) of the given month in years 1..9999: the pure-Python standard library's proleptic Gregorian ordinal "
              "(_pydatetime._ymd2ord, executed symbolically) equals the calculator's day number + 719163")
def iso_vs_stdlib(P):
    import _pydatetime
    cal, calc, _lo, _hi = cs.prepare("ISO")
    ymdrecord.install()
    m = P

    def h(y, d):
        assume(1 <= y <= 9999)
        assume(1 <= d <= _pydatetime._days_in_month(y, m))
        return _pydatetime._ymd2ord(y, m, d) == calc._get_days_since_epoch(ymdrecord.YMD(y, m, d)) + RD_UNIX_EPOCH
    return h


def _inverse_blocks(tier, seed):
    blocks = [[a, min(3652059, a + 36524)] for a in range(1, 3652060, 36525)]
    return blocks if tier == "thorough" else [blocks[(seed * 13 + j * 17) % len(blocks)] for j in range(5)]


@lemma({"n": int}, params=_inverse_blocks, budget=200, per_path=60,
       bounds="every proleptic Gregorian ordinal of a block of 36 525 days (quick: 5 seeded blocks, thorough: all 100 covering 1..3 652 059): the standard "
              "library's _ord2ymd equals the calculator's (year, month, day) for day number ordinal - 719163")
def iso_vs_stdlib_inverse(P):
    import _pydatetime
    cal, calc, _lo, _hi = cs.prepare("ISO")
    ymdrecord.install()
    a, b = P

    def h(n):
        assume(a <= n <= b)
        y, m, d = _pydatetime._ord2ymd(n)
        ymd = calc._get_year_month_day_from_days_since_epoch(n - RD_UNIX_EPOCH)
        return ymd._year == y and ymd._month == m and ymd._day == d
    return h


# ------------------------------------------------------------------------------------------------ Hebrew
from pyoda_time.calendars._hebrew_scriptural_calculator import _HebrewScripturalCalculator as HS  # noqa: E402
from pyoda_time.calendars._year_start_cache_entry import _YearStartCacheEntry  # noqa: E402
from symx import slicer  # noqa: E402

HEBREW_LEAP_POSITIONS = (3, 6, 8, 11, 14, 17, 19)          # GUCHADZaT: leap years of the 19-year cycle
PARTS_PER_DAY = 24 * 1080
MONTH_PARTS = 29 * PARTS_PER_DAY + 12 * 1080 + 793         # mean lunation: 29d 12h 793p
MOLAD_BAHARAD = 5 * 1080 + 204                             # molad of Tishri AM 1: day 2 (Monday), 5h 204p -> parts after the start of day 1
MAX_MONTHS = 235 * 527


def heb_leap(y):
    p = y % 19
    return _in(p if p != 0 else 19, HEBREW_LEAP_POSITIONS)


def heb_months_before(y):
    c, p = (y - 1) // 19, (y - 1) % 19
    return 235 * c + 12 * p + _count_le(p, HEBREW_LEAP_POSITIONS[:-1])


def heb_dehiyyot(y, day, parts):
    """Rosh Hashanah from the molad of Tishri (day number with day % 7: 1 = Sunday ... 0 = Saturday; parts of that day)"""
    dow = day % 7
    postpone = (parts >= 18 * 1080                                                    # molad zaken: at or after noon
                or (dow == 2 and parts >= 9 * 1080 + 204 and not heb_leap(y))         # GaTaRaD: Tuesday 9h 204p, common year
                or (dow == 1 and parts >= 15 * 1080 + 589 and heb_leap(y - 1)))       # BeTUTaKPaT: Monday 15h 589p, after a leap year
    d = day + 1 if postpone else day
    if _in(d % 7, (0, 3, 5)):                                                          # lo ADU rosh: not Sunday, Wednesday, Friday
        d += 1
    return d


def heb_elapsed(y):
    """classical computation: day number of 1 Tishri of year y, counted so that 1 Tishri AM 1 is day 1"""
    T = MOLAD_BAHARAD + MONTH_PARTS * heb_months_before(y)
    return heb_dehiyyot(y, 1 + T // PARTS_PER_DAY, T % PARTS_PER_DAY)


def heb_elapsed_dr(y):
    """Dershowitz & Reingold's formulation (hebrew-calendar-elapsed-days + year-length correction), shifted to the same origin"""
    def el(yy):
        months = (235 * yy - 234) // 19
        parts = 12084 + 13753 * months
        day = 29 * months + parts // 25920
        return day + 1 if (3 * (day + 1)) % 7 < 3 else day
    ny0, ny1, ny2 = el(y - 1), el(y), el(y + 1)
    return ny1 + (2 if ny2 - ny1 == 356 else (1 if ny1 - ny0 == 382 else 0)) + 1


_REAL_ELAPSED = HS._HebrewScripturalCalculator__elapsed_days_no_cache


def _tracing():
    from crosshair.tracers import is_tracing
    return is_tracing()


def _slices():
    s1 = slicer.slice_function(_REAL_ELAPSED, None, "parts_elapsed", ["cls", "year"], ["months_elapsed"])
    s2 = slicer.slice_function(_REAL_ELAPSED, "parts_elapsed", "postpone_rosh_ha_shanah", ["cls", "months_elapsed"], ["day", "parts"])
    s3 = slicer.slice_function(_REAL_ELAPSED, "postpone_rosh_ha_shanah", None, ["cls", "year", "day", "parts"])
    return s1, s2, s3


@lemma({"y": int, "m": int, "day": int, "parts": int}, params=["months", "molad", "dehiyyot", "compose|1|2500", "compose|2501|5000", "compose|5001|7500", "compose|7501|10000"],
       budget=400, per_path=200,
       bounds="the molad arithmetic of _HebrewScripturalCalculator.__elapsed_days_no_cache, cut (from its current source) into three consecutive "
              "statement groups, each against the classical definition for EVERY input: months elapsed before year y (1..10000) = 19-year-cycle "
              "count; (day, parts) of the molad for every month count 0..123 845 = BaHaRaD + n lunations of 29d 12h 793p (a counterexample is replayed through a year with that month count); the four postponements "
              "for every year and its molad state (day, parts) (the state is tied to the year by the reference molad, so a counterexample is a real year).  'compose': the three groups chained equal the whole function for every year (same statements)")
def hebrew_chain(P):
    s1, s2, s3 = _slices()

    def h(y, m, day, parts):
        assume(1 <= y <= 10000)
        if P == "months":
            return s1(HS, y) == heb_months_before(y)
        if P == "molad":
            assume(0 <= m <= MAX_MONTHS)
            T = MOLAD_BAHARAD + MONTH_PARTS * m
            dd, pp = s2(HS, m)
            if dd == 1 + T // PARTS_PER_DAY and pp == T % PARTS_PER_DAY:
                return True
            if _tracing():
                return False
            # concrete replay: only a month count some year produces counts, and it must show in the whole real function
            return not any(heb_months_before(yy) == m and _REAL_ELAPSED(yy) != heb_elapsed(yy) for yy in range(1, 10000))
        if P == "dehiyyot":
            # only molad states a year actually produces (a deviation on an unreachable state would not break the property)
            T = MOLAD_BAHARAD + MONTH_PARTS * heb_months_before(y)
            assume(day == 1 + T // PARTS_PER_DAY)
            assume(parts == T % PARTS_PER_DAY)
            if s3(HS, y, day, parts) == heb_dehiyyot(y, day, parts):
                return True
            # concrete replay of a counterexample goes through the whole real function, not the slice
            return False if _tracing() else _REAL_ELAPSED(y) == heb_elapsed(y)
        _c, ylo, yhi = P.split("|")
        assume(int(ylo) <= y <= int(yhi))
        mm = s1(HS, y)
        dd, pp = s2(HS, mm)
        return s3(HS, y, dd, pp) == _REAL_ELAPSED(y)
    return h


class _ColdCache:
    """The Hebrew year cache, always cold: every slot holds the invalid entry and stores are dropped (cache transparency is C13's lemma)."""
    entry = _YearStartCacheEntry._YearStartCacheEntry__invalid()

    def __getitem__(self, i):
        return self.entry

    def __setitem__(self, i, v):
        pass


def _abstract_elapsed(state):
    """replaces __elapsed_days_no_cache by an abstract function: E for the harness's year, E + L for the next year (anything else: error)"""
    def g(cls, year):
        if year == state["y"]:
            return state["E"]
        if year == state["y"] + 1:
            return state["E"] + state["L"]
        raise AssertionError("abstract elapsed-days function asked for an unexpected year")
    return classmethod(g)


@lemma({"y": int, "E": int, "L": int}, params=["complete", "deficient", "regular"], budget=200, per_path=100,
       bounds="(partitioned by L % 10 == 5 / == 3 / other) __compute_cache_entry / __get_or_populate_cache over an ABSTRACT elapsed-days function (E for year y, E + L for y + 1; every "
              "1 <= y <= 9999, 0 <= E < 2**22, 300 <= L <= 400) and a cold cache: the entry is (E << 2) | long-Heshvan bit (L % 10 == 5) | "
              "short-Kislev bit (L % 10 == 3), and _elapsed_days / _days_in_year return E and L")
def hebrew_entry(P):
    return lambda y, E, L: _hebrew_entry(P, y, E, L)


def _hebrew_entry(P, y, E, L):
    assume(1 <= y <= 9998)
    assume(0 <= E < 2 ** 22)
    assume(300 <= L <= 400)
    r = L % 10
    assume(r == 5 if P == "complete" else (r == 3 if P == "deficient" else (r != 3 and r != 5)))
    state = {"y": y, "E": E, "L": L}
    saved = (HS._HebrewScripturalCalculator__elapsed_days_no_cache, HS._HebrewScripturalCalculator__YEAR_CACHE)
    HS._HebrewScripturalCalculator__elapsed_days_no_cache = _abstract_elapsed(state)
    HS._HebrewScripturalCalculator__YEAR_CACHE = _ColdCache()
    try:
        entry = HS._HebrewScripturalCalculator__get_or_populate_cache(y)
        want = E * 4 + (1 if L % 10 == 5 else 0) + (2 if L % 10 == 3 else 0)
        return entry == want and HS._elapsed_days(y) == E
    finally:
        HS._HebrewScripturalCalculator__elapsed_days_no_cache, HS._HebrewScripturalCalculator__YEAR_CACHE = saved


HEB_ORDER = (7, 8, 9, 10, 11, 12, 13, 1, 2, 3, 4, 5, 6)     # scriptural month numbers in the order of the (Tishri-based) year


def heb_dim(sm, leap, L):
    """published month lengths (scriptural numbering): Heshvan long in complete years (355/385), Kislev short in deficient (353/383)"""
    if _in(sm, (2, 4, 6, 10, 13)):
        return 29
    if sm == 12:
        return 30 if leap else 29
    if sm == 8:
        return 30 if _in(L, (355, 385)) else 29
    if sm == 9:
        return 29 if _in(L, (353, 383)) else 30
    return 30


def heb_year_months(leap):
    return [sm for sm in HEB_ORDER if sm != 13 or leap]


def _hebrew_params(tier, seed):
    out = []
    for cid in cs.HEBREW:
        for leap in (False, True):
            n = 13 if leap else 12
            pos = range(1, n + 1) if tier == "thorough" else [1 + (seed + j * 5) % n for j in range(3)]
            out += [[cid, leap, p] for p in pos]
    return out


@lemma({"y": int, "d": int, "E": int, "L": int}, params=_hebrew_params, budget=150, per_path=60,
       bounds="the Hebrew calculators (both month numberings) over an ABSTRACT year cache entry (elapsed days E, year length L of the six "
              "legal lengths matching the year's leapness; every year of the given leapness per the published 19-year cycle, every E): months in year, days in "
              "year, year start = published epoch + E - 1, and for the month at the given position of the Tishri-based year: its number "
              "in the calendar's numbering, length, offset from the year start and the day number of every day d, against the published "
              "month lengths and order (quick: 3 seeded positions per numbering and leapness; thorough: all)")
def hebrew_calendar(P):
    cid, leap, pos = P
    cal, calc = _calc(cid)
    ymdrecord.install()
    cs.prepare("ISO")             # generic year-start cache bypass
    civil = cid.endswith("Civil")
    order = heb_year_months(leap)
    sm = order[pos - 1]                                   # scriptural number of the month at this position
    cm = pos if civil else sm                             # its number in this calendar's numbering

    def h(y, d, E, L):
        assume(1 <= y <= 9998)
        assume(bool(heb_leap(y)) == leap)
        assume(1 <= E < 2 ** 22)
        assume(_in(L, (383, 384, 385) if leap else (353, 354, 355)))
        entry = E * 4 + (1 if L % 10 == 5 else 0) + (2 if L % 10 == 3 else 0)
        nxt = (E + L) * 4

        def cache(cls, year):
            if year == y:
                return entry
            if year == y + 1:
                return nxt
            raise AssertionError("abstract year cache asked for an unexpected year")
        saved = HS._HebrewScripturalCalculator__get_or_populate_cache
        HS._HebrewScripturalCalculator__get_or_populate_cache = classmethod(cache)
        try:
            if calc._get_months_in_year(y) != len(order) or bool(calc._is_leap_year(y)) != leap:
                return False
            if calc._get_days_in_year(y) != L:
                return False
            start = HEBREW_EPOCH + E - 1 - RD_UNIX_EPOCH
            if calc._calculate_start_of_year_days(y) != start:
                return False
            want_dim = heb_dim(sm, leap, L)
            if calc._get_days_in_month(y, cm) != want_dim:
                return False
            off = 0
            for prev in order[:pos - 1]:
                off += heb_dim(prev, leap, L)
            if calc._get_days_from_start_of_year_to_start_of_month(y, cm) != off:
                return False
            assume(1 <= d <= want_dim)
            return calc._get_days_since_epoch(ymdrecord.YMD(y, cm, d)) == start + off + d - 1
        finally:
            HS._HebrewScripturalCalculator__get_or_populate_cache = saved
    return h


@lemma({"y": int}, params=lambda tier, seed: [cs.P("Hebrew Civil", *w) for w in cs.windows("Hebrew Civil")], budget=60,
       bounds="every Hebrew year (all 180-year windows; year kinds tabulated from the real code): the year has one of the six legal lengths, "
              "353-355 days in a common year and 383-385 in a leap year (the premise of hebrew_calendar)")
def hebrew_year_length_legal(P):
    cid, lo, hi = cs.unP(P)
    cal, calc, lo, hi = cs.prepare(cid, lo, hi)

    def h(y):
        assume(lo <= y <= hi)
        L = calc._get_days_in_year(y)
        return _in(L, (383, 384, 385)) if heb_leap(y) else _in(L, (353, 354, 355))
    return h, cs.reset_hebrew_cache


# ------------------------------------------------------------------------------------------------ premise: the oracle itself
@lemma(premise=True, params=["oracle"], budget=120)
def premise_reference(P):
    """Auxiliary (concrete): the reference arithmetic reproduces published correspondences, its two Hebrew formulations agree for every
    year, and CPython's date.toordinal agrees with the Gregorian reference on a grid."""
    import datetime as dt
    bad = []
    if fixed_from_gregorian(1970, 1, 1) != RD_UNIX_EPOCH:
        bad.append("R.D. of 1970-01-01")
    anchors = [("ISO", (2000, 1, 1), 730120), ("Julian", (1582, 10, 5), fixed_from_gregorian(1582, 10, 15)),
               ("Coptic", (1740, 1, 1), fixed_from_gregorian(2023, 9, 12)),                  # Nayrouz 1740 AM = 12 September 2023
               ("Hijri Civil-Base16", (1445, 1, 1), fixed_from_gregorian(2023, 7, 19)),      # tabular 1 Muharram 1445 AH
               ("Persian Arithmetic", (1403, 1, 1), fixed_from_gregorian(2024, 3, 20)),      # Nowruz 1403 SH
               ("Persian Simple", (1403, 1, 1), fixed_from_gregorian(2024, 3, 20))]
    for cid, (y, m, d), rd in anchors:
        if Ref(cid).fixed(y, m, d) != rd:
            bad.append(f"{cid} {y}-{m}-{d}: {Ref(cid).fixed(y, m, d)} != {rd}")
    if HEBREW_EPOCH + heb_elapsed(5784) - 1 != fixed_from_gregorian(2023, 9, 16):            # Rosh Hashanah 5784 = 16 September 2023
        bad.append("Rosh Hashanah 5784")
    if (HEBREW_EPOCH - 1) % 7 + 1 != 1:
        bad.append("1 Tishri AM 1 is not a Monday")
    diff = [y for y in range(1, 10001) if heb_elapsed(y) != heb_elapsed_dr(y)]
    if diff:
        bad.append(f"classical vs D&R Hebrew formulations differ in years {diff[:5]}")
    for (y, m, d) in [(1, 1, 1), (1600, 2, 29), (1900, 3, 1), (2024, 12, 31), (9999, 12, 31)]:
        if dt.date(y, m, d).toordinal() != fixed_from_gregorian(y, m, d):
            bad.append(f"CPython toordinal {y}-{m}-{d}")
    return (not bad), ("; ".join(bad) if bad else "published anchors, D&R formulation (10 000 Hebrew years) and CPython ordinals agree with the reference")
