"""C03 — Duration / Instant / Offset are exact integer arithmetic.  Oracle: Python integer arithmetic on total nanoseconds."""
from symx.driver import assume
from symx.lemma import lemma
from symx import stubs

stubs.standard()

from pyoda_time import Duration, Instant, Offset, PyodaConstants  # noqa: E402
from pyoda_time._local_instant import _LocalInstant  # noqa: E402
from pyoda_time.utility._tick_arithmetic import _TickArithmetic  # noqa: E402

NPD = PyodaConstants.NANOSECONDS_PER_DAY
MIN_D, MAX_D = Duration._MIN_DAYS, Duration._MAX_DAYS
MIN_NS, MAX_NS = Duration._MIN_NANOSECONDS, Duration._MAX_NANOSECONDS
BIG = 10 ** 25  # harness inputs are bounded by 10**25 where _towards_zero_division is reached (model obligation 10**26)


def total(d):
    return d._floor_days * NPD + d._nanosecond_of_floor_day


def norm(d):
    return 0 <= d._nanosecond_of_floor_day < NPD and MIN_D <= d._floor_days <= MAX_D


def dur(days, nano):
    assume(MIN_D <= days <= MAX_D)
    assume(0 <= nano < NPD)
    return Duration._ctor(days=days, nano_of_day=nano)


def trunc(a, b):
    q = abs(a) // abs(b)
    return q if (a >= 0) == (b >= 0) else -q


def exact_or_raises(make, expected_total):
    """make() must return a normalised Duration equal to expected_total, or raise ValueError/OverflowError iff out of range."""
    inr = MIN_NS <= expected_total <= MAX_NS
    try:
        d = make()
    except (ValueError, OverflowError):
        return not inr
    return inr and norm(d) and total(d) == expected_total


@lemma({"n": int}, budget=30, bounds="n: any int with |n| <= 10**25 (covers far beyond the +-2**30-day range)")
def duration_from_nanoseconds(n):
    assume(-BIG <= n <= BIG)
    return exact_or_raises(lambda: Duration.from_nanoseconds(n), n)


UNITS = {"days": NPD, "hours": PyodaConstants.NANOSECONDS_PER_HOUR, "minutes": PyodaConstants.NANOSECONDS_PER_MINUTE,
         "seconds": PyodaConstants.NANOSECONDS_PER_SECOND, "milliseconds": PyodaConstants.NANOSECONDS_PER_MILLISECOND,
         "microseconds": PyodaConstants.NANOSECONDS_PER_MICROSECOND, "ticks": PyodaConstants.NANOSECONDS_PER_TICK}


@lemma({"v": int}, params=lambda tier, seed: list(UNITS), budget=30,
       bounds="v: any int with |v * unit| <= 10**25 ns; int argument (float arguments outside the claim)")
def duration_from_unit(P):
    unit = UNITS[P]
    f = getattr(Duration, "from_" + P)

    def h(v):
        assume(-BIG <= v * unit <= BIG)
        return exact_or_raises(lambda: f(v), v * unit)
    return h


@lemma({"d1": int, "n1": int, "d2": int, "n2": int}, budget=40, bounds="all pairs of valid Durations (full range)")
def duration_add_sub(d1, n1, d2, n2):
    a, b = dur(d1, n1), dur(d2, n2)
    ta, tb = total(a), total(b)
    ok = exact_or_raises(lambda: a + b, ta + tb) and exact_or_raises(lambda: a - b, ta - tb)
    ok = ok and exact_or_raises(lambda: Duration.add(a, b), ta + tb) and exact_or_raises(lambda: a.minus(b), ta - tb)
    return ok and total(a) == d1 * NPD + n1 and total(b) == d2 * NPD + n2  # operands unchanged


@lemma({"d": int, "n": int}, budget=30, bounds="all valid Durations")
def duration_neg(d, n):
    a = dur(d, n)
    return exact_or_raises(lambda: -a, -(d * NPD + n)) and exact_or_raises(lambda: Duration.negate(a), -(d * NPD + n))


@lemma({"d": int, "n": int, "k": int}, budget=60, bounds="all valid Durations x any int k with |k| <= 2**64")
def duration_mul(d, n, k):
    a = dur(d, n)
    assume(-2 ** 64 <= k <= 2 ** 64)
    t = d * NPD + n
    assume(-BIG <= t * k <= BIG)
    return exact_or_raises(lambda: a * k, t * k) and exact_or_raises(lambda: k * a, t * k)


@lemma({"d": int, "n": int, "k": int}, budget=60, per_path=30,
       bounds="all valid Durations / k for each constant k in a divisor grid (symbolic divisor would need nonlinear division)",
       params=lambda tier, seed: [1, 2, 3, 7, 10, 1000, 86400, 10 ** 9, NPD, NPD + 1, 2 ** 40 + 1] if tier == "quick" else
       [1, 2, 3, 5, 7, 10, 24, 60, 100, 1000, 3600, 86400, 10 ** 6, 10 ** 9, NPD - 1, NPD, NPD + 1, 2 ** 40 + 1, 10 ** 20])
def duration_div(P):
    k = P

    def h(d, n, k):
        a = dur(d, n)
        assume(k == P or k == -P)
        t = d * NPD + n
        kk = P if k > 0 else -P
        if k > 0:
            return exact_or_raises(lambda: a / P, trunc(t, P))
        return exact_or_raises(lambda: a / (-P), trunc(t, -P))
    return h


def _sgn_ok(x, ref):
    """x is zero or has the sign of ref"""
    return x == 0 or (x > 0) == (ref > 0)


def _comp(x, unit, container):
    """component of x: magnitude (|x| div unit) mod container, carrying the sign of x"""
    mag = (abs(x) // unit) % container
    return mag if x >= 0 else -mag


def _rem(q, m):
    """C-style remainder (sign of the dividend)"""
    return q - trunc(q, m) * m


def _within(sub, comp, unit):
    """comp == trunc(sub / unit), stated without division: |sub| - |comp|*unit in [0, unit) and signs agree."""
    r = abs(sub) - abs(comp) * unit
    return 0 <= r < unit and _sgn_ok(comp, sub)


COMPONENTS = {
    "days_nod": lambda a, t, nod: a.days == trunc(t, NPD) and a.nanosecond_of_day == nod and a.to_nanoseconds() == t and a.total_nanoseconds == t,
    # definitional oracles: component = (total truncated units) reduced modulo the container, sign following the value
    "hours": lambda a, t, nod: _within(nod, a.hours, 3600 * 10 ** 9),
    "minutes": lambda a, t, nod: a.minutes == _comp(nod, 60 * 10 ** 9, 60),
    "seconds": lambda a, t, nod: a.seconds == _comp(nod, 10 ** 9, 60),
    "subsecond_nanoseconds": lambda a, t, nod: a.subsecond_nanoseconds == _comp(nod, 1, 10 ** 9),
    "milliseconds": lambda a, t, nod: a.milliseconds == _comp(nod, 10 ** 6, 1000),
    "microseconds": lambda a, t, nod: a.microseconds == _comp(nod, 10 ** 3, 10 ** 6),
    "subsecond_ticks": lambda a, t, nod: a.subsecond_ticks == _comp(nod, 100, 10 ** 7),
}


@lemma({"d": int, "n": int}, params=list(COMPONENTS), budget=60,
       bounds="all valid Durations; oracle stated in the accessors' own coordinates (recomposition, no division)")
def duration_component(P):
    chk = COMPONENTS[P]

    def h(d, n):
        a = dur(d, n)
        t = d * NPD + n
        if P == "days_nod":
            nod = t - trunc(t, NPD) * NPD  # remainder with the sign of t (the definition)
        else:
            nod = a.nanosecond_of_day       # established equal to the definition by duration_component[days_nod]
        return chk(a, t, nod)
    return h


@lemma({"d": int, "n": int}, budget=60, bounds="all valid Durations")
def duration_bcl_ticks(d, n):
    a = dur(d, n)
    return a.bcl_compatible_ticks == trunc(d * NPD + n, 100)


@lemma({"d1": int, "n1": int, "d2": int, "n2": int}, budget=60, bounds="all pairs of valid Durations")
def duration_compare(d1, n1, d2, n2):
    a, b = dur(d1, n1), dur(d2, n2)
    ta, tb = d1 * NPD + n1, d2 * NPD + n2
    c = a.compare_to(b)
    ok = (a == b) == (ta == tb) and (a != b) == (ta != tb) and (a < b) == (ta < tb) and (a <= b) == (ta <= tb)
    ok = ok and (a > b) == (ta > tb) and (a >= b) == (ta >= tb)
    ok = ok and (c < 0) == (ta < tb) and (c == 0) == (ta == tb) and (c > 0) == (ta > tb)
    mx, mn = Duration.max(a, b), Duration.min(a, b)
    return ok and total(mx) == max(ta, tb) and total(mn) == min(ta, tb) and a.equals(b) == (ta == tb)


TPD = PyodaConstants.TICKS_PER_DAY


@lemma({"t": int}, budget=60, bounds="ticks: any int with |ticks| <= 2**72 (Duration range is about +-2**69.7 ticks)")
def tick_arithmetic_split(t):
    assume(-2 ** 72 <= t <= 2 ** 72)
    days, tod = _TickArithmetic.ticks_to_days_and_tick_of_day(t)
    ok = days == t // TPD and tod == t % TPD
    return ok and _TickArithmetic.days_and_tick_of_day_to_ticks(days, tod) == t and \
        _TickArithmetic.bounded_days_and_tick_of_day_to_ticks(days, tod) == t


IMIN, IMAX = Instant._MIN_DAYS, Instant._MAX_DAYS


def inst(d, n):
    assume(IMIN <= d <= IMAX)
    assume(0 <= n < NPD)
    return Instant._ctor(days=d, nano_of_day=n)


def itotal(i):
    return total(i._time_since_epoch)


@lemma({"v": int}, params=["seconds", "milliseconds", "ticks"], budget=40, bounds="v: any int with |v*unit| <= 10**25 ns")
def instant_from_unix(P):
    unit = {"seconds": 10 ** 9, "milliseconds": 10 ** 6, "ticks": 100}[P]
    f = getattr(Instant, "from_unix_time_" + P)
    lo, hi = IMIN * NPD, (IMAX + 1) * NPD - 1

    def h(v):
        assume(-BIG <= v * unit <= BIG)
        inr = lo <= v * unit <= hi - (unit - 1)  # largest representable whole unit
        try:
            i = f(v)
        except (ValueError, OverflowError):
            return not inr
        return inr and itotal(i) == v * unit and norm(i._time_since_epoch) and getattr(i, "to_unix_time_" + P)() == v
    return h


@lemma({"d": int, "n": int}, budget=40, bounds="all valid Instants")
def instant_to_unix_floor(d, n):
    i = inst(d, n)
    t = d * NPD + n
    return (i.to_unix_time_seconds() == t // 10 ** 9 and i.to_unix_time_milliseconds() == t // 10 ** 6
            and i.to_unix_time_ticks() == t // 100)


@lemma({"d": int, "n": int, "dd": int, "dn": int}, budget=60, bounds="all valid Instants x all valid Durations")
def instant_plus_minus_duration(d, n, dd, dn):
    i, x = inst(d, n), dur(dd, dn)
    t, tx = d * NPD + n, dd * NPD + dn
    lo, hi = IMIN * NPD, (IMAX + 1) * NPD - 1

    def chk(make, expect):
        inr = lo <= expect <= hi
        try:
            r = make()
        except (ValueError, OverflowError):
            return not inr
        return inr and itotal(r) == expect and norm(r._time_since_epoch)
    return (chk(lambda: i + x, t + tx) and chk(lambda: i - x, t - tx) and chk(lambda: i.plus(x), t + tx)
            and chk(lambda: i.minus(x), t - tx) and chk(lambda: Instant.add(i, x), t + tx) and itotal(i) == t)


@lemma({"d": int, "n": int, "d2": int, "n2": int}, budget=60, bounds="all pairs of valid Instants")
def instant_minus_instant_compare(d, n, d2, n2):
    a, b = inst(d, n), inst(d2, n2)
    ta, tb = d * NPD + n, d2 * NPD + n2
    diff = a - b
    c = a.compare_to(b)
    ok = total(diff) == ta - tb and norm(diff)
    ok = ok and (a == b) == (ta == tb) and (a < b) == (ta < tb) and (a <= b) == (ta <= tb) and (a > b) == (ta > tb)
    ok = ok and (a >= b) == (ta >= tb) and (a != b) == (ta != tb) and (c < 0) == (ta < tb) and (c > 0) == (ta > tb)
    return ok and itotal(Instant.max(a, b)) == max(ta, tb) and itotal(Instant.min(a, b)) == min(ta, tb)


@lemma({"d": int, "n": int, "v": int}, budget=60, bounds="all valid Instants; v any int with |v| <= 10**24")
def instant_plus_ticks_nanos(d, n, v):
    i = inst(d, n)
    assume(-10 ** 24 <= v <= 10 ** 24)
    t = d * NPD + n
    lo, hi = IMIN * NPD, (IMAX + 1) * NPD - 1

    def chk(make, expect):
        inr = lo <= expect <= hi
        try:
            r = make()
        except (ValueError, OverflowError):
            return not inr
        return inr and itotal(r) == expect and norm(r._time_since_epoch)
    return chk(lambda: i.plus_nanoseconds(v), t + v)


@lemma({"d": int, "n": int, "v": int}, budget=60, bounds="all valid Instants; ticks any int with |ticks| <= 2**62")
def instant_plus_ticks(d, n, v):
    i = inst(d, n)
    assume(-2 ** 62 <= v <= 2 ** 62)
    t = d * NPD + n
    lo, hi = IMIN * NPD, (IMAX + 1) * NPD - 1
    expect = t + v * 100
    inr = lo <= expect <= hi
    try:
        r = i.plus_ticks(v)
    except (ValueError, OverflowError):
        return not inr
    return inr and itotal(r) == expect and norm(r._time_since_epoch)


@lemma({"d": int, "n": int, "o": int}, budget=60, bounds="all valid Instants incl. the extreme days; all offsets +-18h")
def instant_safe_plus(d, n, o):
    i = inst(d, n)
    assume(-64800 <= o <= 64800)
    off = Offset.from_seconds(o)
    r = i._safe_plus(off)
    t = d * NPD + n + o * 10 ** 9
    rd = r._time_since_local_epoch._floor_days
    if t < IMIN * NPD:
        return r == _LocalInstant.before_min_value()
    if t >= (IMAX + 1) * NPD:
        return r == _LocalInstant.after_max_value()
    return total(r._time_since_local_epoch) == t and IMIN <= rd <= IMAX


@lemma({"a": int, "b": int}, budget=40, bounds="all pairs of offsets in +-18h")
def offset_arith(a, b):
    assume(-64800 <= a <= 64800)
    assume(-64800 <= b <= 64800)
    x, y = Offset.from_seconds(a), Offset.from_seconds(b)

    def chk(make, expect):
        inr = -64800 <= expect <= 64800
        try:
            r = make()
        except (ValueError, OverflowError):
            return not inr
        return inr and r.seconds == expect
    ok = chk(lambda: x + y, a + b) and chk(lambda: x - y, a - b) and chk(lambda: -x, -a) and chk(lambda: +x, a)
    ok = ok and chk(lambda: Offset.add(x, y), a + b) and chk(lambda: x.plus(y), a + b) and chk(lambda: x.minus(y), a - b)
    ok = ok and chk(lambda: Offset.subtract(x, y), a - b) and chk(lambda: Offset.negate(x), -a)
    ok = ok and x.milliseconds == a * 1000 and x.ticks == a * 10 ** 7 and x.nanoseconds == a * 10 ** 9 and x.seconds == a
    c = x.compare_to(y)
    ok = ok and (x == y) == (a == b) and (x < y) == (a < b) and (x <= y) == (a <= b) and (x > y) == (a > b) and (x >= y) == (a >= b)
    ok = ok and (c < 0) == (a < b) and (c > 0) == (a > b) and Offset.max(x, y).seconds == max(a, b) and Offset.min(x, y).seconds == min(a, b)
    return ok


@lemma({"v": int}, params=["seconds", "milliseconds", "ticks", "nanoseconds", "hours"], budget=30,
       bounds="v: any int with |v| <= 10**24; result truncated toward zero to whole seconds")
def offset_factories(P):
    unit_per_s = {"seconds": 1, "milliseconds": 1000, "ticks": 10 ** 7, "nanoseconds": 10 ** 9}
    f = getattr(Offset, "from_" + P)

    def h(v):
        assume(-10 ** 24 <= v <= 10 ** 24)
        if P == "hours":
            expect = v * 3600
            inr = -18 <= v <= 18
        else:
            expect = trunc(v, unit_per_s[P])
            inr = -64800 * unit_per_s[P] <= v <= 64800 * unit_per_s[P]
        try:
            r = f(v)
        except (ValueError, OverflowError):
            return not inr
        return inr and r.seconds == expect
    return h


@lemma({"hh": int, "mm": int}, budget=30, bounds="hours, minutes: any ints in +-10**6")
def offset_from_hours_and_minutes(hh, mm):
    assume(-10 ** 6 <= hh <= 10 ** 6)
    assume(-10 ** 6 <= mm <= 10 ** 6)
    expect = hh * 3600 + mm * 60
    try:
        r = Offset.from_hours_and_minutes(hh, mm)
    except (ValueError, OverflowError):
        return not (-64800 <= expect <= 64800)
    return -64800 <= expect <= 64800 and r.seconds == expect
