"""C04 — each time zone partitions the whole timeline into maximal offset intervals.

Decomposition: precalculated part (binary search over a symbolic period list; real zones' concrete period tables), the
recurring tail = alternating map over abstract recurrences + one recurrence over an abstract yearly rule + the yearly rule
(_ZoneYearOffset) on year windows; fixed zones; ZoneInterval construction."""
from symx import stubs
from symx.driver import assume
from symx.lemma import lemma

stubs.standard()

from props import symzone  # noqa: E402
from props.symzone import NPD, NS  # noqa: E402
from pyoda_time import DateTimeZone, DateTimeZoneProviders, Instant, Offset, PyodaConstants  # noqa: E402
from pyoda_time._local_instant import _LocalInstant  # noqa: E402
from pyoda_time.time_zones import ZoneInterval  # noqa: E402
from pyoda_time.time_zones._precalculated_date_time_zone import _PrecalculatedDateTimeZone  # noqa: E402
from pyoda_time.time_zones._standard_daylight_alternating_map import _StandardDaylightAlternatingMap as AM  # noqa: E402
from pyoda_time.time_zones._transition import _Transition  # noqa: E402
from pyoda_time.time_zones._zone_recurrence import _ZoneRecurrence  # noqa: E402

IMIN, IMAX = Instant._MIN_DAYS, Instant._MAX_DAYS


def _ins(total):
    return Instant._ctor(days=total // NPD, nano_of_day=total % NPD)


def _tot(i):
    d = i._time_since_epoch
    return d._floor_days * NPD + d._nanosecond_of_floor_day


# ------------------------------------------------------------------------------------------------ ZoneInterval construction
@lemma({"sd": int, "sn": int, "ed": int, "en": int, "o": int}, params=lambda tier, seed: ([[True, True, "start"], [True, True, "end"]] if tier == "thorough" else [])
       + [[True, False, "both"], [False, True, "both"], [False, False, "both"]], budget=120, thorough_budget=600, per_path=60,
       bounds="every ZoneInterval (bounded or unbounded on either side, any wall offset in +-18h, any instants): the constructor rejects "
              "start >= end, the local bounds used by map_local are start/end + wall offset (saturating at the ends of time), membership is half-open")
def zoneinterval_ctor(P):
    hs, he, side = P

    def h(sd, sn, ed, en, o):
        return _zoneinterval_ctor(sd, sn, ed, en, o, hs, he, side)
    return h


def _zoneinterval_ctor(sd, sn, ed, en, o, hs, he, side="both"):
    for d in (sd, ed):
        if hs and he:
            assume(IMIN + 2 <= d <= IMAX - 2)      # both ends bounded: interior instants (saturation at the ends of time is covered by the half-bounded cases)
        else:
            assume(IMIN <= d <= IMAX)
    for n in (sn, en):
        assume(0 <= n < NPD)
    assume(-64800 <= o <= 64800)
    s, e = sd * NPD + sn, ed * NPD + en
    st = Instant._ctor(days=sd, nano_of_day=sn) if hs else None
    en_ = Instant._ctor(days=ed, nano_of_day=en) if he else None
    try:
        iv = ZoneInterval(name="x", start=st, end=en_, wall_offset=Offset.from_seconds(o), savings=Offset.zero)
    except ValueError:
        return hs and he and s >= e
    if hs and he and s >= e:
        return False
    ls, le = iv._ZoneInterval__local_start, iv._ZoneInterval__local_end
    lo_, hi_ = IMIN * NPD, (IMAX + 1) * NPD
    ok = iv.has_start == hs and iv.has_end == he and iv.wall_offset.seconds == o
    if side == "end":
        pass
    elif hs:
        want = s + o * NS
        if want < lo_:
            ok = ok and ls == _LocalInstant.before_min_value()
        elif want >= hi_:
            ok = ok and ls == _LocalInstant.after_max_value()
        else:
            t = ls._time_since_local_epoch
            ok = ok and t._floor_days * NPD + t._nanosecond_of_floor_day == want
    else:
        ok = ok and ls == _LocalInstant.before_min_value()
    if side == "start":
        return ok
    if he:
        want = e + o * NS
        if want < lo_:
            ok = ok and le == _LocalInstant.before_min_value()
        elif want >= hi_:
            ok = ok and le == _LocalInstant.after_max_value()
        else:
            t = le._time_since_local_epoch
            ok = ok and t._floor_days * NPD + t._nanosecond_of_floor_day == want
    else:
        ok = ok and le == _LocalInstant.after_max_value()
    return ok


# ------------------------------------------------------------------------------------------------ precalculated zones
class _TailMap:
    """Stub tail map: one interval reaching back before the tail start (the real constructor clamps it) and one after `mid`."""

    def __init__(self, before, after, mid):
        self.before, self.after, self.mid = before, after, mid
        self.min_offset, self.max_offset = Offset.min_value, Offset.max_value

    def get_zone_interval(self, instant):
        return self.before if _tot(instant) < self.mid else self.after


def _precalc_args(n):
    a = {"t": int, "ot": int, "mid": int, "back": int}
    for i in range(1, n + 1):
        a[f"b{i}"] = int
    for i in range(n + 1):
        a[f"o{i}"] = int
    return a


def _precalc_generic(n, with_tail):
    def h(**kw):
        B = [kw[f"b{i}"] for i in range(1, n + 1)]          # boundaries (total ns): b1 < b2 < ... < bn
        O = [kw[f"o{i}"] for i in range(n + 1)]
        lo_, hi_ = (IMIN + 2) * NPD, (IMAX - 1) * NPD
        prev = lo_
        for b in B:
            assume(prev < b < hi_)
            prev = b
        for o in O:
            assume(-64800 <= o <= 64800)
        t = kw["t"]
        assume(lo_ <= t < hi_)
        per = []
        bounds = [None] + B
        for i in range(n + (0 if with_tail else 1)):
            start = bounds[i]
            end = B[i] if i < n else None
            per.append(symzone._fast_interval("p%d" % i, start, end, O[i], 0))
        tail = None
        if with_tail:
            mid, back, ot = kw["mid"], kw["back"], kw["ot"]
            assume(-64800 <= ot <= 64800)
            assume(B[-1] < mid < hi_)
            assume(lo_ <= back <= B[-1])                   # the tail's own first interval may start before the tail start
            tail = _TailMap(symzone._fast_interval("tb", back, mid, O[n], 0), symzone._fast_interval("ta", mid, None, ot, 0), mid)
        z = _PrecalculatedDateTimeZone("z", per, tail)
        iv = z.get_zone_interval(_ins(t))
        # expected interval
        idx = 0
        for i in range(n):
            if t >= B[i]:
                idx = i + 1
        if idx < len(per):
            return iv is per[idx]
        # in the tail
        if t < kw["mid"]:
            return (_tot(iv._raw_start) == B[-1] and _tot(iv._raw_end) == kw["mid"] and iv.wall_offset.seconds == O[n]
                    and iv._raw_start <= _ins(t) < iv._raw_end)
        return iv is tail.after
    return h


@lemma(_precalc_args(3), params=lambda tier, seed: ([["tail", i] for i in range(5)] if tier == "thorough" else [["tail", 3], ["tail", 4]])
       + [["no-tail", i] for i in range(4)], budget=300, per_path=30,
       bounds="_PrecalculatedDateTimeZone over a symbolic list of 3 abutting periods (partitioned by the region of the instant; the tail-side "
              "regions in quick, all in thorough) (arbitrary boundaries/offsets) with or without a stub "
              "tail map whose first interval starts before the tail start: the interval returned contains the instant, is the stored period "
              "before the tail start, and the first tail interval is clamped to start at the tail start")
def precalc_generic(P):
    base = _precalc_generic(3, P[0] == "tail")
    case = P[1]

    def h(**kw):
        t, B = kw["t"], [kw["b1"], kw["b2"], kw["b3"]]
        idx = 0
        for i in range(3):
            if t >= B[i]:
                idx = i + 1
        if idx == 3 and P[0] == "tail" and t >= kw["mid"]:
            idx = 4
        assume(idx == case)                 # partition by the region the instant falls into
        return base(**kw)
    return h


@lemma({"b1": int, "b2": int, "o0": int, "o1": int, "o2": int, "gap": int}, budget=60,
       bounds="_validate_periods: a period list is accepted iff it starts at the beginning of time and consecutive periods abut "
              "(symbolic gap/overlap between two periods), and without a tail covers all of time")
def precalc_validate(b1, b2, o0, o1, o2, gap):
    lo_, hi_ = (IMIN + 2) * NPD, (IMAX - 1) * NPD
    assume(lo_ < b1 < b2 < hi_)
    assume(-10 ** 12 <= gap <= 10 ** 12)
    assume(b1 + gap < b2)
    for o in (o0, o1, o2):
        assume(-64800 <= o <= 64800)
    per = [symzone._fast_interval("a", None, b1, o0, 0), symzone._fast_interval("b", b1 + gap, b2, o1, 0),
           symzone._fast_interval("c", b2, None, o2, 0)]
    try:
        _PrecalculatedDateTimeZone._validate_periods(per, None)
    except ValueError:
        return gap != 0
    return gap == 0


def _zone_ids(tier, seed):
    ids = sorted(DateTimeZoneProviders.tzdb.ids)
    if tier == "thorough":
        return ids
    k = 6
    return [ids[(seed * 131 + i * 73) % len(ids)] for i in range(k)]


@lemma({"d": int, "n": int}, params=_zone_ids, budget=150, thorough_budget=400, per_path=30,
       bounds="a real zone of the bundled database x every instant before its tail start (or all of time for tail-less zones): the interval "
              "returned contains the instant (binary search over the zone's concrete period table); adjacent stored periods abut, differ in "
              "name or offsets, and wall = standard + savings within the zone's advertised min/max (finite facts checked concretely first)")
def precalc_zone(P):
    from pyoda_time.time_zones._cached_date_time_zone import _CachedDateTimeZone
    zone = DateTimeZoneProviders.tzdb[P]
    z = zone._time_zone if isinstance(zone, _CachedDateTimeZone) else zone
    if not isinstance(z, _PrecalculatedDateTimeZone):
        # fixed zone: a single interval covering all of time
        def hf(d, n):
            assume(IMIN <= d <= IMAX)
            assume(0 <= n < NPD)
            iv = z.get_zone_interval(Instant._ctor(days=d, nano_of_day=n))
            return not iv.has_start and not iv.has_end and iv.wall_offset == z.get_utc_offset(Instant._ctor(days=d, nano_of_day=n))
        return hf
    periods = z._PrecalculatedDateTimeZone__periods
    tail_start = z._PrecalculatedDateTimeZone__tail_zone_start
    # (the finite per-period facts - abutting, distinct neighbours, offsets within the advertised min/max - are premise_zone_tables)
    hi_days = tail_start._days_since_epoch if tail_start._is_valid else IMAX
    starts = [(_tot(p._raw_start) if p.has_start else None) for p in periods]

    def h(d, n):
        assume(IMIN <= d <= min(hi_days, IMAX))
        assume(0 <= n < NPD)
        t = d * NPD + n
        if tail_start._is_valid:
            assume(t < _tot(tail_start))
        iv = z.get_zone_interval(Instant._ctor(days=d, nano_of_day=n))
        idx = -1
        for i, p in enumerate(periods):            # identity search: no symbolic comparison
            if p is iv:
                idx = i
        if idx < 0:
            return False
        # the period returned is the one whose [start, next start) holds the instant (starts are strictly increasing: checked above)
        lo_ok = idx == 0 or t >= starts[idx]
        hi_ok = idx + 1 == len(periods) or t < starts[idx + 1]
        return lo_ok and hi_ok
    return h


@lemma({"o0": int, "o1": int, "o2": int, "s0": int, "s1": int, "s2": int}, budget=90, per_path=30,
       bounds="_PrecalculatedDateTimeZone over three periods with ANY wall offsets in +-18h and ANY savings in +-2h (no tail): the advertised "
              "min_offset / max_offset are exactly the smallest / largest WALL offset of the periods")
def precalc_min_max(o0, o1, o2, s0, s1, s2):
    O, S = [o0, o1, o2], [s0, s1, s2]
    for o in O:
        assume(-64800 <= o <= 64800)
    for sv in S:
        assume(-7200 <= sv <= 7200)
    b1, b2 = 0, 400 * NPD
    per = [symzone._fast_interval("p0", None, b1, O[0], S[0]), symzone._fast_interval("p1", b1, b2, O[1], S[1]),
           symzone._fast_interval("p2", b2, None, O[2], S[2])]
    z = _PrecalculatedDateTimeZone("z", per, None)
    return z.min_offset.seconds == min(O) and z.max_offset.seconds == max(O)


@lemma(premise=True, params=lambda tier, seed: [tier], budget=600)
def premise_zone_tables(P):
    """Finite facts about the stored period tables of the provider's zones (concrete; quick: every 5th zone id, thorough: all): stored
    periods abut, neighbours differ in name or offsets, wall = standard + savings, and every wall offset lies within the zone's advertised
    [min_offset, max_offset] (for zones with a tail: also the tail's two offsets)."""
    from pyoda_time.time_zones._cached_date_time_zone import _CachedDateTimeZone
    ids = sorted(DateTimeZoneProviders.tzdb.ids)
    ids = ids if P == "thorough" else ids[::5] + ["Europe/London", "Asia/Tokyo", "America/St_Johns", "Africa/Windhoek", "Australia/Sydney"]
    bad = []
    for zid in ids:
        zone = DateTimeZoneProviders.tzdb[zid]
        z = zone._time_zone if isinstance(zone, _CachedDateTimeZone) else zone
        if not isinstance(z, _PrecalculatedDateTimeZone):
            continue
        periods = z._PrecalculatedDateTimeZone__periods
        for a, b in zip(periods, periods[1:]):
            if a._raw_end != b._raw_start:
                bad.append(f"{zid}: periods do not abut at {a._raw_end}")
            if (a.name, a.wall_offset, a.savings) == (b.name, b.wall_offset, b.savings):
                bad.append(f"{zid}: adjacent periods identical at {b._raw_start}")
        for p in periods:
            if not (zone.min_offset <= p.wall_offset <= zone.max_offset):
                bad.append(f"{zid}: wall offset {p.wall_offset.seconds}s of {p.name} outside advertised [{zone.min_offset.seconds}, {zone.max_offset.seconds}]")
                break
            if p.wall_offset != p.standard_offset + p.savings:
                bad.append(f"{zid}: wall != standard + savings in {p.name}")
    return (not bad), (f"violations: {bad[:6]}" if bad else f"{len(ids)} zone ids: stored period tables consistent with the advertised offsets")


# ------------------------------------------------------------------------------------------------ the zone as served (cached)
def _served_params(tier, seed):
    """[zone id, index of a stored transition]: windows around stored transitions of provider zones, before and after 1970"""
    from pyoda_time.time_zones._cached_date_time_zone import _CachedDateTimeZone
    ids = sorted(DateTimeZoneProviders.tzdb.ids)
    out = []
    n = 6 if tier == "quick" else 80
    i = 0
    while len(out) < n and i < 4 * n:
        zid = ids[(seed * 211 + i * 59) % len(ids)]
        i += 1
        zone = DateTimeZoneProviders.tzdb[zid]
        z = zone._time_zone if isinstance(zone, _CachedDateTimeZone) else zone
        if not isinstance(z, _PrecalculatedDateTimeZone):
            continue
        periods = z._PrecalculatedDateTimeZone__periods
        if len(periods) < 3:
            continue
        # alternate between an early (pre-1970, negative day numbers) and a late stored transition
        ks = [k for k in range(1, len(periods)) if (periods[k]._raw_start._days_since_epoch < 0) == (len(out) % 2 == 0)]
        if not ks:
            continue
        out.append([zid, ks[(seed * 7 + i * 3) % len(ks)]])
    return out


@lemma({"d": int, "n": int}, params=_served_params, budget=200, thorough_budget=300, per_path=40,
       bounds="a zone as the provider serves it (fresh _CachedDateTimeZone around the decoded zone) x EVERY instant within 45 days either side "
              "of a stored transition (quick: 6 seeded (zone, transition) pairs alternating between pre-1970 and later ones; thorough: 80): the "
              "interval returned contains the instant and is the one the uncached zone returns")
def served_zone_window(P):
    from pyoda_time.time_zones._cached_date_time_zone import _CachedDateTimeZone
    zid, k = P
    zone = DateTimeZoneProviders.tzdb[zid]
    inner = zone._time_zone
    periods = inner._PrecalculatedDateTimeZone__periods
    T = periods[k]._raw_start
    lo_d, hi_d = T._days_since_epoch - 45, T._days_since_epoch + 45
    near = [p for p in periods if (not p.has_end or p._raw_end._days_since_epoch >= lo_d - 1) and (not p.has_start or p._raw_start._days_since_epoch <= hi_d + 1)]
    tail_start = inner._PrecalculatedDateTimeZone__tail_zone_start

    def h(d, n):
        assume(max(IMIN, lo_d) <= d <= min(IMAX, hi_d))
        assume(0 <= n < NPD)
        t = d * NPD + n
        if tail_start._is_valid:
            assume(t < _tot(tail_start))
        cz = _CachedDateTimeZone._for_zone(inner)                  # a fresh cache per path (what for_id builds)
        iv = cz.get_zone_interval(Instant._ctor(days=d, nano_of_day=n))
        want = None
        for p in near:                                             # the stored period holding t (stored periods abut: precalc_zone)
            if (not p.has_start or _tot(p._raw_start) <= t) and (not p.has_end or t < _tot(p._raw_end)):
                want = p
        return want is not None and iv is want
    return h


# ------------------------------------------------------------------------------------------------ alternating map (abstract recurrences)
class _AbsRec:
    """Abstract recurrence obeying the recurrence contract (C04.recurrence_*): previous-or-same transition p <= instant < next n."""

    def __init__(self, name, savings, p, n):
        self.name, self.savings, self.p, self.n = name, savings, p, n

    def _mk(self, ns, std):
        return _Transition._ctor(Instant._after_max_value() if ns is None else _ins(ns), std + self.savings)

    def _next_or_fail(self, instant, std, prev_sav):
        return self._mk(self.n, std)

    def _previous_or_same_or_fail(self, instant, std, prev_sav):
        return self._mk(self.p, std)


@lemma({"t": int, "dp": int, "dn": int, "sp": int, "sn": int, "std": int, "sav": int}, budget=200, per_path=30,
       bounds="_StandardDaylightAlternatingMap.get_zone_interval over abstract recurrences (arbitrary previous/next transitions of the "
              "daylight and standard rules around any instant, alternating, arbitrary offsets): the interval contains the instant, starts at "
              "the later previous transition, ends at the earlier next one and carries that rule's name, wall offset = standard + savings")
def altmap(t, dp, dn, sp, sn, std, sav):
    lo_, hi_ = (IMIN + 2) * NPD, (IMAX - 1) * NPD
    for v in (t, dp, dn, sp, sn):
        assume(lo_ <= v < hi_)
    assume(dp <= t < dn)
    assume(sp <= t < sn)
    assume(dn != sn)
    assume(dp != sp)
    assume((dp > sp) == (sn < dn))      # alternation: the rule that fired last is the one that does not fire next
    assume(-64800 <= std <= 64800)
    assume(-64800 <= std + sav <= 64800)
    assume(-64800 <= sav <= 64800)
    assume(sav != 0)
    m = object.__new__(AM)
    m._StandardDaylightAlternatingMap__standard_offset = Offset.from_seconds(std)
    m._StandardDaylightAlternatingMap__dst_recurrence = _AbsRec("D", Offset.from_seconds(sav), dp, dn)
    m._StandardDaylightAlternatingMap__standard_recurrence = _AbsRec("S", Offset.zero, sp, sn)
    iv = m.get_zone_interval(_ins(t))
    in_dst = dp > sp
    return (_tot(iv._raw_start) == max(dp, sp) and _tot(iv._raw_end) == min(dn, sn) and iv.name == ("D" if in_dst else "S")
            and iv.wall_offset.seconds == std + (sav if in_dst else 0) and iv.savings.seconds == (sav if in_dst else 0)
            and iv.wall_offset == iv.standard_offset + iv.savings)


@lemma({"t": int, "dp": int, "sp": int, "std": int, "sav": int}, budget=120, per_path=30,
       bounds="_StandardDaylightAlternatingMap.get_zone_interval at the END of the timeline: both rules' next transitions lie beyond the end "
              "of time, their previous transitions are arbitrary distinct instants at or before the queried instant: the interval runs from "
              "the later previous transition to the end of time and is the period of the rule that fired last (name, savings, wall offset)")
def altmap_end_of_time(t, dp, sp, std, sav):
    lo_, hi_ = (IMIN + 2) * NPD, (IMAX - 1) * NPD
    for v in (t, dp, sp):
        assume(lo_ <= v < hi_)
    assume(dp <= t)
    assume(sp <= t)
    assume(dp != sp)
    assume(-64800 <= std <= 64800)
    assume(-64800 <= std + sav <= 64800)
    assume(-64800 <= sav <= 64800)
    assume(sav != 0)
    m = object.__new__(AM)
    m._StandardDaylightAlternatingMap__standard_offset = Offset.from_seconds(std)
    m._StandardDaylightAlternatingMap__dst_recurrence = _AbsRec("D", Offset.from_seconds(sav), dp, None)
    m._StandardDaylightAlternatingMap__standard_recurrence = _AbsRec("S", Offset.zero, sp, None)
    iv = m.get_zone_interval(_ins(t))
    in_dst = dp > sp
    return (_tot(iv._raw_start) == max(dp, sp) and not iv.has_end and iv.name == ("D" if in_dst else "S")
            and iv.wall_offset.seconds == std + (sav if in_dst else 0) and iv.savings.seconds == (sav if in_dst else 0))


# ------------------------------------------------------------------------------------------------ one recurrence over an abstract yearly rule
class _AbsYearOffset:
    """Abstract yearly rule: in year y the occurrence is start_of_year(y) + k[y mod 3] nanoseconds (three independent symbolic
    positions inside the year), in the frame given by `mode` (0 UTC, 1 wall, 2 standard)."""

    def __init__(self, ks, mode, calc):
        self.ks, self.mode, self.calc = ks, mode, calc
        self.asked = []

    def _get_rule_offset(self, standard_offset, savings):
        if self.mode == 1:
            return standard_offset + savings
        if self.mode == 2:
            return standard_offset
        return Offset.zero

    def occ_total(self, y):
        r = y % 3
        k = self.ks[0] if r == 0 else self.ks[1] if r == 1 else self.ks[2]
        return self.calc.start(y) * NPD + k

    def _get_occurrence_for_year(self, y):
        self.asked.append(y)
        tot = self.occ_total(y)
        return _LocalInstant._ctor(days=tot // NPD, nano_of_day=tot % NPD)


WINDOWS = {"end-of-time": (9996, 9999), "start-of-time": (-9998, -9995), "modern": (1999, 2002)}


class _YearTable:
    """ISO year boundaries of a small window as concrete numbers taken from the real calculator (C01.getyear/yearlen are the
    contract): day -> year and year -> start become comparisons against constants."""

    def __init__(self, real, ylo, yhi):
        self.ylo, self.yhi = ylo, yhi
        self.starts = {y: real._get_start_of_year_in_days(y) for y in range(ylo, yhi + 2)}

    def start(self, y):
        for yy in range(self.ylo, self.yhi + 2):
            if y == yy:
                return self.starts[yy]
        raise AssertionError("year window")

    def _get_year(self, days):
        for yy in range(self.ylo, self.yhi + 1):
            if days < self.starts[yy + 1]:
                if days < self.starts[yy] and yy == self.ylo:
                    raise AssertionError("year window")
                return yy, days - self.starts[yy]
        raise AssertionError("year window")


def _recurrence(which, window, mode):
    from pyoda_time import CalendarSystem
    real = CalendarSystem.iso._year_month_day_calculator
    ylo, yhi = WINDOWS[window]
    calc = _YearTable(real, max(-9998, ylo - 1), min(9999, yhi + 1))
    real._get_year = calc._get_year            # attribute injection on the ISO calculator instance used by _ZoneRecurrence
    stubs.STUBS_IN_FORCE.append(f"tabulated:ISO year boundaries {calc.ylo}..{calc.yhi + 1} as constants from the real calculator (contract C01)")
    INT_MIN, INT_MAX = -2 ** 31, 2 ** 31 - 1

    def h(d, n, k0, k1, k2, std, sav, psav):
        assume(calc.starts[ylo] <= d < calc.starts[min(yhi, calc.yhi) + 1])
        assume(IMIN + 1 <= d <= IMAX - 1)
        assume(0 <= n < NPD)
        for k in (k0, k1, k2):
            assume(2 * NPD <= k < 363 * NPD)          # the occurrence lies inside its year, clear of the year ends by more than any offset
        assume(-64800 <= std <= 64800)
        assume(-64800 <= std + sav <= 64800)
        assume(-64800 <= std + psav <= 64800)
        assume(-43200 <= sav <= 43200)
        assume(-43200 <= psav <= 43200)
        yo = _AbsYearOffset((k0, k1, k2), mode, calc)
        rec = _ZoneRecurrence("R", Offset.from_seconds(sav), yo, INT_MIN, INT_MAX)
        t = d * NPD + n
        inst = Instant._ctor(days=d, nano_of_day=n)
        so, ps = Offset.from_seconds(std), Offset.from_seconds(psav)
        ro = (std + psav if mode == 1 else std if mode == 2 else 0) * NS
        ty = calc._get_year((t + ro) // NPD)[0]          # calendar year of the instant in the rule's frame
        if which == "next":
            r = rec._next(inst, so, ps)
            cand = yo.occ_total(ty) - ro
            if cand > t:
                want = cand
            elif ty + 1 > 9999:
                want = None
            else:
                want = yo.occ_total(ty + 1) - ro
            if r is None:
                return False
            if want is None:
                return r._instant == Instant._after_max_value() and r._new_offset.seconds == std + sav
            return _tot(r._instant) == want and want > t and r._new_offset.seconds == std + sav
        r = rec._previous_or_same(inst, so, ps)
        cand = yo.occ_total(ty) - ro
        if cand <= t:
            want = cand
        elif ty - 1 < -9998:
            want = None
        else:
            want = yo.occ_total(ty - 1) - ro
        if r is None:
            return False
        if want is None:
            return r._instant == Instant._before_min_value() and r._new_offset.seconds == std + sav
        return _tot(r._instant) == want and want <= t and r._new_offset.seconds == std + sav
    return h


@lemma({"d": int, "n": int, "k0": int, "k1": int, "k2": int, "std": int, "sav": int, "psav": int},
       params=[[w, win, m] for w in ("next", "previous") for win in WINDOWS for m in (0, 1, 2)], budget=300, per_path=40,
       bounds="an infinite _ZoneRecurrence over an ABSTRACT yearly rule (occurrence = arbitrary position inside each year, independent for "
              "adjacent years; frame UTC/wall/standard) x every instant of a 4-year window (the last and first years of time, and 1999-2002) x "
              "arbitrary standard offset and savings: _next is the first occurrence strictly after the instant (end-of-time marker when none "
              "up to year 9999), _previous_or_same the last one at or before it (start-of-time marker when none from year -9998)")
def recurrence(P):
    return _recurrence(*P)


# ------------------------------------------------------------------------------------------------ fixed zones
@lemma({"o": int, "d": int, "n": int}, budget=60,
       bounds="fixed-offset zones for 7 representative offsets x every instant: a single interval covering all of time with that offset")
def fixed_zone(o, d, n):
    offs = [-64800, -3600, -1, 0, 1, 19800, 64800]
    assume(0 <= o < len(offs))
    assume(IMIN <= d <= IMAX)
    assume(0 <= n < NPD)
    sec = offs[int(o)]
    z = DateTimeZone.for_offset(Offset.from_seconds(sec))
    t = Instant._ctor(days=d, nano_of_day=n)
    iv = z.get_zone_interval(t)
    return (not iv.has_start and not iv.has_end and iv.wall_offset.seconds == sec and z.get_utc_offset(t).seconds == sec
            and z.min_offset.seconds == sec and z.max_offset.seconds == sec and iv.savings.seconds == 0)
