"""C05 — local date-times map to exactly the instants whose local rendering is that value (real code over SymZone + DayCalendar)."""
from symx import stubs
from symx.driver import assume
from symx.lemma import lemma

stubs.standard()

from props import daycal, symzone  # noqa: E402
from props.symzone import NPD, NS  # noqa: E402
from pyoda_time import (AmbiguousTimeError, Duration, Instant, LocalDateTime, LocalTime, Offset, SkippedTimeError,  # noqa: E402
                        ZonedDateTime)
from pyoda_time._local_instant import _LocalInstant  # noqa: E402


class _LDT:
    """Abstract local date-time for map_local (it only calls _to_local_instant)."""

    def __init__(self, li):
        self.li = li

    def _to_local_instant(self):
        return self.li


def _local(ld, ln):
    assume(symzone.LO <= ld <= symzone.HI)
    assume(0 <= ln < NPD)
    return _LocalInstant._ctor(days=ld, nano_of_day=ln), ld * NPD + ln


def _matches(T, O, L):
    """indices of the intervals whose local range contains local instant L"""
    k = len(O)
    out = []
    for i in range(k):
        lo_ok = True if i == 0 else (T[i - 1] + O[i] * NS <= L)
        hi_ok = True if i == k - 1 else (L < T[i] + O[i] * NS)
        out.append(lo_ok and hi_ok)
    return out


def _maplocal(k, case):
    def h(**kw):
        bounds = [(kw[f"d{i}"], kw[f"n{i}"]) for i in range(1, k)]
        offs = [kw[f"o{i}"] for i in range(k)]
        zone, T = symzone.make(bounds, offs)
        li, L = _local(kw["ld"], kw["ln"])
        # partition by where the UTC-interpreted local instant falls (covers everything)
        idx0 = 0
        for i in range(k - 1):
            if L >= T[i]:
                idx0 = i + 1
        assume(idx0 == case)
        m = zone.map_local(_LDT(li))
        c = _matches(T, offs, L)
        cnt = sum(1 for x in c if x)
        if m.count != cnt:
            return False
        ivs = zone.intervals
        idx = [i for i in range(k) if c[i]]
        if cnt >= 1:
            return m.early_interval is ivs[idx[0]] and m.late_interval is ivs[idx[-1]] and cnt <= 2
        # gap: the pair of adjacent intervals around it: last interval whose local end <= L, and the next one
        g = 0
        for i in range(k - 1):
            if L >= T[i] + offs[i] * NS:
                g = i
        return m.early_interval is ivs[g] and m.late_interval is ivs[g + 1]
    return h


def _zone_args(k, extra):
    a = {}
    for i in range(1, k):
        a[f"d{i}"] = int
        a[f"n{i}"] = int
    for i in range(k):
        a[f"o{i}"] = int
    a.update(extra)
    return a


@lemma(_zone_args(3, {"ld": int, "ln": int}), params=[[c, a, b] for c in (0, 1, 2) for a in (0, 1) for b in (0, 1)], budget=400, per_path=30,
       bounds="every zone of 3 intervals (arbitrary transition instants >= 3 days apart, arbitrary wall offsets in +-18h) x every local "
              "instant (partitioned by the interval containing it when read as UTC): count = number of intervals whose local range contains "
              "it (0, 1 or 2), early/late = first/last of them, and in a gap the two adjacent intervals around the gap")
def maplocal3(P):
    base = _maplocal(3, P[0])

    def h(**kw):
        assume((kw["o1"] >= kw["o0"]) == bool(P[1]))      # 12 partitions: case x direction of the two offset changes
        assume((kw["o2"] >= kw["o1"]) == bool(P[2]))
        return base(**kw)
    return h


@lemma(_zone_args(2, {"ld": int, "ln": int}), params=[0, 1], budget=120, per_path=30,
       bounds="as maplocal3 for zones of 2 intervals (one transition)")
def maplocal2(P):
    return _maplocal(2, P)


@lemma(_zone_args(3, {"td": int, "tn": int}), budget=400, per_path=30,
       bounds="every zone of 3 intervals x every instant: rendering the instant in the zone and mapping the local value back recovers the "
              "instant's own interval among the results")
def inverse3(d1, n1, d2, n2, o0, o1, o2, td, tn):
    zone, T = symzone.make([(d1, n1), (d2, n2)], [o0, o1, o2])
    assume(symzone.LO <= td <= symzone.HI)
    assume(0 <= tn < NPD)
    t = Instant._ctor(days=td, nano_of_day=tn)
    iv = zone.get_zone_interval(t)
    li = t._plus(iv.wall_offset)
    m = zone.map_local(_LDT(li))
    return m.count >= 1 and (m.early_interval is iv or m.late_interval is iv)


# ------------------------------------------------------------------------------------------------- resolvers / start of day (DayCalendar)
def _H():
    daycal.install_plus_days_contract()
    return daycal.host("Coptic")


def _stub_messages():
    """SkippedTimeError / AmbiguousTimeError format the local date-time into their message (culture-aware formatting of symbolic
    values): give LocalDateTime / ZonedDateTime constant reprs.  Assigned on the classes (dunder lookups bypass register_patch)."""
    for cls in (LocalDateTime, ZonedDateTime):
        cls.__repr__ = lambda self: "<value>"
        cls.__format__ = lambda self, spec: "<value>"
        cls.__str__ = lambda self: "<value>"
    stubs.STUBS_IN_FORCE.append("stub:LocalDateTime/ZonedDateTime __repr__/__format__ constant (error messages embed the value)")


def _ldt(host, ld, ln):
    assume(symzone.LO + 3 <= ld <= symzone.HI - 3)
    assume(host._min_days + 3 <= ld <= host._max_days - 3)
    assume(0 <= ln < NPD)
    return LocalDateTime._ctor(local_date=daycal.date(host, ld), local_time=LocalTime._ctor(nanoseconds=ln)), ld * NPD + ln


def _zdt_total(z):
    t = z.to_instant()._time_since_epoch
    return t._floor_days * NPD + t._nanosecond_of_floor_day


@lemma({"d1": int, "n1": int, "o0": int, "o1": int, "s0": int, "s1": int, "ld": int, "ln": int},
       params=[[r, c] for r in ("strict", "lenient", "first", "last") for c in ("gap", "only-first", "only-second", "both")],
       budget=200, per_path=30,
       bounds="every ZoneLocalMapping over two adjacent intervals (any transition, any wall offsets, any savings in +-2h on either side) with count 0, 1 or 2 consistent with the "
              "local date-time (the mapping itself is maplocal's subject): strict raises Skipped/Ambiguous exactly for count 0/2 and "
              "returns the match otherwise; lenient returns the earlier instant when ambiguous and the skipped time shifted forward by the "
              "gap length; first/last")
def resolvers2(PC):
    _stub_messages()
    from pyoda_time.time_zones import Resolvers, ZoneLocalMapping
    P, case = PC
    want0, want1 = {"gap": (False, False), "only-first": (True, False), "only-second": (False, True), "both": (True, True)}[case]
    cnt = int(want0) + int(want1)

    def h(d1, n1, o0, o1, s0, s1, ld, ln):
        host = _H()
        for sv in (s0, s1):
            assume(-7200 <= sv <= 7200)
        zone, T = symzone.make([(d1, n1)], [o0, o1], savings=[s0, s1])
        ldt, L = _ldt(host, ld, ln)
        # the four cases partition the space: which of the two intervals' local ranges contain the local date-time
        assume((L < T[0] + o0 * NS) == want0)
        assume((T[0] + o1 * NS <= L) == want1)
        c = [want0, want1]
        iv0, iv1 = zone.intervals
        if cnt == 1:
            early = late = iv0 if c[0] else iv1
        else:
            early, late = iv0, iv1
        m = ZoneLocalMapping._ctor(zone, ldt, early, late, cnt)
        inst0, inst1 = L - o0 * NS, L - o1 * NS
        try:
            if P == "strict":
                r = Resolvers.strict_resolver(m)
            elif P == "lenient":
                r = Resolvers.lenient_resolver(m)
            elif P == "first":
                r = m.first()
            else:
                r = m.last()
        except SkippedTimeError:
            return cnt == 0 and P != "lenient"
        except AmbiguousTimeError:
            return cnt == 2 and P == "strict"
        if cnt == 0:
            # forward shift by the gap length, stated in local coordinates: the skipped local time moved by (offset after - offset before)
            loc = daycal.days_of(r.date) * NPD + r.time_of_day.nanosecond_of_day
            return P == "lenient" and loc == L + (o1 - o0) * NS and r.offset.seconds == o1 and r.zone is zone
        got = _zdt_total(r)
        if cnt == 1:
            return got == (inst0 if c[0] else inst1) and r.zone is zone
        return P != "strict" and got == (inst1 if P == "last" else inst0)
    return h


@lemma(_zone_args(2, {"ld": int}), params=["midnight-before", "midnight-after", "skipped"], budget=400, per_path=30,
       bounds="every zone of 2 intervals x every date (partitioned by how midnight relates to the transition): at_start_of_day is the "
              "earliest instant whose local date is that date, SkippedTimeError when the whole day is skipped")
def startofday2(P):
    _stub_messages()

    def h(d1, n1, o0, o1, ld):
        host = _H()
        zone, T = symzone.make([(d1, n1)], [o0, o1])
        assume(symzone.LO + 3 <= ld <= symzone.HI - 3)
        assume(host._min_days + 3 <= ld <= host._max_days - 3)
        date = daycal.date(host, ld)
        t1 = T[0]
        day_lo, day_hi = ld * NPD, (ld + 1) * NPD
        cand0 = day_lo - o0 * NS                       # midnight read in the interval before the transition
        ok0 = cand0 < t1
        start1 = max(t1, day_lo - o1 * NS)
        ok1 = start1 + o1 * NS < day_hi
        assume(ok0 if P == "midnight-before" else (not ok0 and ok1) if P == "midnight-after" else (not ok0 and not ok1))
        try:
            r = zone.at_start_of_day(date)
        except SkippedTimeError:
            return not ok0 and not ok1
        want = cand0 if ok0 else start1
        return (ok0 or ok1) and _zdt_total(r) == want and daycal.days_of(r.date) == ld
    return h


from props import zdt  # noqa: E402

zdt.declare()


@lemma(premise=True, params=["tzdb"], budget=300)
def premise_interval_length(P):
    return symzone.premise_interval_length()


@lemma(_zone_args(2, {"td": int, "tn": int}), budget=200, per_path=30,
       bounds="every zone of 2 intervals x every instant: rendering the instant in the zone and mapping the local value back recovers the "
              "instant's own interval among the results")
def inverse2(d1, n1, o0, o1, td, tn):
    zone, T = symzone.make([(d1, n1)], [o0, o1])
    assume(symzone.LO <= td <= symzone.HI)
    assume(0 <= tn < NPD)
    t = Instant._ctor(days=td, nano_of_day=tn)
    iv = zone.get_zone_interval(t)
    m = zone.map_local(_LDT(t._plus(iv.wall_offset)))
    return m.count >= 1 and (m.early_interval is iv or m.late_interval is iv)
