"""C06 — zones behave exactly as the bundled tz database bytes say.

Oracle: props.nzdref, an interpreter of the file written from the format description and plain calendar arithmetic, sharing no
code with pyoda_time.  Decided symbolically: (1) every reader primitive and the yearly-rule decoder against the reference
decoder on arbitrary bytes, (2) the yearly-rule evaluator against plain calendar arithmetic for every rule and year, (3) the
provider's (cached) zone against the reference timeline at every instant of windows around real transitions (stored and
rule-generated), (4) fixed-offset ids.  The whole-file walk (ids, aliases, every stored period of every zone) is a concrete
premise: it compares finite data."""
from symx import stubs
from symx.driver import assume
from symx.lemma import lemma

stubs.standard()
stubs.stub_parse_messages()

from props import calsetup as _cs  # noqa: E402
from props import nzdref as R  # noqa: E402
from props import ymdrecord as _ymdrecord  # noqa: E402
from pyoda_time import DateTimeZoneProviders, Duration, Instant, LocalTime, Offset  # noqa: E402
from pyoda_time.time_zones._fixed_date_time_zone import _FixedDateTimeZone  # noqa: E402
from pyoda_time.time_zones._transition_mode import _TransitionMode  # noqa: E402
from pyoda_time.time_zones._zone_year_offset import _ZoneYearOffset  # noqa: E402
from pyoda_time.time_zones.io._date_time_zone_reader import _DateTimeZoneReader  # noqa: E402
from pyoda_time.utility import InvalidPyodaDataError  # noqa: E402

for _cls in (Instant, Offset, LocalTime, Duration):
    _cls.__repr__ = lambda self: "<value>"
    _cls.__str__ = lambda self: "<value>"
    _cls.__format__ = lambda self, spec: "<value>"
stubs.STUBS_IN_FORCE.append("stub:Instant/Offset/LocalTime/Duration __repr__/__str__/__format__ constant inside C06 harnesses (error messages embed values)")

NS, NPD = R.NS, R.NPD
POOL = ("a", "b", "c", "d", "e")


def _bytes_args(n):
    a = {"ln": int}
    for i in range(n):
        a[f"b{i}"] = int
    return a


def _inst_ns(i):
    if not i._is_valid:
        return R.MIN_T if i._days_since_epoch < 0 else R.MAX_T
    return i._days_since_epoch * NPD + i._nanosecond_of_day


PRIMS = ["count", "signed_count", "milliseconds", "offset", "transition_first", "transition_next", "string", "rule"]


@lemma(_bytes_args(5), params=lambda tier, seed: [[k, 4 if tier == "quick" else 5] for k in PRIMS if k != "rule"] + [["transition_raw", 9]]
       + [["rule", 4 if tier == "quick" else 5, blk] for blk in range(8)], budget=240,
       thorough_budget=900, per_path=40,
       bounds="every byte string of <= 4 bytes (5 in thorough; the raw 64-bit transition: marker + every 8 bytes with the top 3 fixed to "
              "in-range patterns) through each primitive of the real reader and through the reference decoder: both reject (the real one "
              "with InvalidPyodaDataError / a range error) or both return the same value and consume the same number of bytes")
def primitives(P):
    kind, n = P[0], P[1]
    blk = P[2] if len(P) > 2 else None              # the rule decoder: the flags byte is split into 8 blocks of 32 values

    def h(**kw):
        ln = kw["ln"]
        if blk is not None:
            assume(32 * blk <= kw["b0"] < 32 * blk + 32)
        if kind == "transition_raw":
            bs = [2] + [kw[f"b{i}"] for i in range(5)] + [0, 0, 0]
            # a raw transition is 64-bit ticks; the three low bytes are fixed to 0, the top byte confined to in-range magnitudes
            assume(ln == 9)
            assume(kw["b0"] <= 10 or kw["b0"] >= 245)
        else:
            assume(0 <= ln <= n)
            bs = [kw[f"b{i}"] for i in range(5)][:int(ln)]
        for i in range(5):
            assume(0 <= kw[f"b{i}"] <= 255)
        st = stubs.Stream(bs)
        rd = _DateTimeZoneReader._ctor(st, POOL)
        cur = R.Cur(list(bs), list(POOL))
        prev_ns = 1234 * 3600 * NS
        prev = Instant._ctor(days=0, nano_of_day=prev_ns)
        real_err = ref_err = None
        got = want = None
        try:
            if kind == "count":
                got = rd.read_count()
            elif kind == "signed_count":
                got = rd.read_signed_count()
            elif kind == "milliseconds":
                got = rd.read_milliseconds()
            elif kind == "offset":
                got = rd.read_offset().milliseconds
            elif kind in ("transition_first", "transition_raw"):
                got = _inst_ns(rd.read_zone_interval_transition(None))
            elif kind == "transition_next":
                got = _inst_ns(rd.read_zone_interval_transition(prev))
            elif kind == "string":
                got = rd.read_string()
            else:
                r = _ZoneYearOffset.read(rd)
                got = (int(r.mode), r._ZoneYearOffset__month_of_year, r._ZoneYearOffset__day_of_month, r._ZoneYearOffset__day_of_week,
                       bool(r.advance_day_of_week), bool(r._ZoneYearOffset__add_day), r.time_of_day.nanosecond_of_day)
        except InvalidPyodaDataError:
            real_err = "data"
        except (ValueError, OverflowError):
            real_err = "range"
        try:
            if kind == "count":
                want = cur.varint()
                if want > 2 ** 31 - 1:
                    raise ValueError("count beyond Int32")
            elif kind == "signed_count":
                want = cur.zigzag()
            elif kind in ("milliseconds", "offset"):
                want = cur.millis()
                if kind == "offset" and not -64800000 <= want <= 64800000:
                    raise ValueError("offset beyond 18h")
                if kind == "offset":
                    assume(want % 1000 == 0)               # an Offset is a whole number of seconds (the file never stores others)
            elif kind in ("transition_first", "transition_raw"):
                v = cur.varint()
                if v > 2 ** 31 - 1:
                    raise ValueError("count beyond Int32")
                cur.i = 0
                if 128 <= v < (1 << 21):
                    raise ValueError("delta without a previous transition")
                want = cur.transition(None)
            elif kind == "transition_next":
                v = cur.varint()
                if v > 2 ** 31 - 1:
                    raise ValueError("count beyond Int32")
                cur.i = 0
                want = cur.transition(prev_ns)
            elif kind == "string":
                v = cur.varint()
                if v > 2 ** 31 - 1 or v >= len(POOL):
                    raise ValueError("pool index")
                cur.i = 0
                want = cur.string()
            else:
                rr = R.parse_rule(cur)
                if rr["mode"] > 2 or not 1 <= rr["month"] <= 12 or rr["dom"] == 0 or not -31 <= rr["dom"] <= 31 or rr["dow"] > 7 \
                        or not 0 <= rr["tod_ms"] < 86400000 or rr["month"] > 2 ** 31 - 1:
                    raise ValueError("rule field out of range")
                want = (rr["mode"], rr["month"], rr["dom"], rr["dow"], rr["advance"], rr["add_day"], rr["tod_ms"] * 10 ** 6)
        except IndexError:
            ref_err = "data"
        except ValueError:
            ref_err = "range"
        if real_err or ref_err:
            # both must reject; which of the two reasons is reported may differ when a value is both truncated and out of range
            return bool(real_err) and bool(ref_err)
        if isinstance(want, int) and kind.startswith("transition"):
            # instants beyond the supported range are rejected by the real reader (range error) - the reference has no range
            pass
        return got == want and st.pos == cur.i
    return h


# ------------------------------------------------------------------------------------------------ yearly rules: evaluation
from props.daycal import install_iso_plus_days_contract as install_plus_days_contract  # noqa: E402


YEAR_PARTS = {"early": (1, 1899), "table": (1900, 2100), "late": (2101, 9998)}        # around the ISO calculator's 1900-2100 month-start table


CENTURIES = [1 + 100 * k for k in range(100)]


def _rule_params(tier, seed):
    allp = [[m, sg, CENTURIES[(seed * 31 + m * 7 + w * 13 + (5 if sg == "-" else 0)) % 100], w] for m in range(1, 13) for sg in ("+", "-") for w in range(8)]
    return allp if tier == "thorough" else [allp[(seed * 7 + j * 37) % len(allp)] for j in range(7)] + [[2, "+", 2301, 7]]


@lemma({"year": int, "dom": int, "dow": int, "adv": bool, "addday": bool, "ms": int}, params=_rule_params, budget=300, thorough_budget=400, per_path=60,
       bounds="every yearly rule of the given month, day-of-month sign and weekday (day 1..31 valid for the month / -1..-31, advance, "
              "24:00 flag, time of day 0..86 399 999 ms) x every year of a century (1..9998 in 100 blocks): the local instant of "
              "_get_occurrence_for_year equals plain calendar arithmetic (Gregorian fixed date, weekday on-or-after/before, +1 day); "
              "one instance per (month, sign, weekday 0..7) with the century rotating with the seed and the instance; quick: 8 seeded instances, thorough: all 192")
def rule_occurrence(P):
    month, sg, ylo, wd = P
    yhi = min(9998, ylo + 99)
    _cs.prepare("ISO")
    _ymdrecord.install()
    install_plus_days_contract()

    def h(year, dom, dow, adv, addday, ms):
        assume(ylo <= year <= yhi)
        if sg == "+":
            assume(1 <= dom <= (29 if month == 2 else R.days_in_month(2001, month)))
        else:
            assume(-(28 if month == 2 else R.days_in_month(2001, month)) <= dom <= -1)
        assume(dow == wd)
        assume(0 <= ms < 86400000)
        rule = _ZoneYearOffset._ctor(_TransitionMode.UTC, month, dom, int(dow), adv, LocalTime.from_milliseconds_since_midnight(ms), addday)
        ref = {"mode": 0, "dow": int(dow), "advance": adv, "add_day": addday, "month": month, "dom": dom, "tod_ms": ms}
        li = rule._get_occurrence_for_year(year)
        return li._days_since_epoch * NPD + li._nanosecond_of_day == R.rule_local_ns(ref, year)
    return h


@lemma({"mode": int, "std": int, "sav": int}, budget=60,
       bounds="every mode (UTC / wall / standard) x every standard offset and savings whose sum is an Offset: _get_rule_offset equals the "
              "reference (0 / standard + savings / standard)")
def rule_offset(mode, std, sav):
    assume(0 <= mode <= 2)
    assume(-64800 <= std <= 64800)
    assume(-64800 <= sav <= 64800)
    assume(-64800 <= std + sav <= 64800)
    rule = _ZoneYearOffset._ctor(_TransitionMode(int(mode)), 3, 1, 0, False, LocalTime.from_milliseconds_since_midnight(0), False)
    off = rule._get_rule_offset(Offset.from_seconds(std), Offset.from_seconds(sav)).seconds
    ref = {"mode": int(mode), "dow": 0, "advance": False, "add_day": False, "month": 3, "dom": 1, "tod_ms": 0}
    return R.rule_local_ns(ref, 2000) - off * NS == R.rule_utc_ns(ref, 2000, std, sav)


# ------------------------------------------------------------------------------------------------ the provider's zones on windows
_REF = None


def ref_file():
    global _REF
    if _REF is None:
        _REF = R.parse_file()
    return _REF


def _window_params(tier, seed):
    """[zone id, index of a reference transition]: stored transitions and rule-generated ones (tail expanded to 2100)"""
    ref = ref_file()
    ids = sorted(ref["zones"])
    out = []
    n = 5 if tier == "quick" else 60
    for i in range(n):
        zid = ids[(seed * 131 + i * 47) % len(ids)]
        z = ref["zones"][zid]
        if z["kind"] == "fixed":
            continue
        ivs = R.reference_intervals(z, 1950, 2100)
        k_stored = len(z["periods"])
        out.append([zid, (seed * 17 + i * 29) % max(1, k_stored - 1) + 1])
        if z["tail"] is not None and len(ivs) > k_stored + 4:
            out.append([zid, k_stored + (seed * 13 + i * 7) % (len(ivs) - k_stored - 2) + 1])
    # transitions that fall on the last / first day of a 32-day cache period (the cache's block boundaries)
    extra = []
    for zid in ("Europe/London", "America/New_York", "Africa/Cairo", "Australia/Sydney"):
        ivs = R.reference_intervals(ref["zones"][zid], 1950, 2100)
        for k, iv in enumerate(ivs[1:], 1):
            if isinstance(iv[0], int) and (iv[0] // NPD) % 32 in (31, 0):
                extra.append([zid, k])
    out += extra[: (3 if tier == "quick" else 40)]
    # the end of the rule-generated timeline: the last transition of year 9998 (its interval ends at the first transition of 9999)
    tailed = [z for z in ids if ref["zones"][z]["kind"] != "fixed" and ref["zones"][z]["tail"] is not None]
    for i in range(1 if tier == "quick" else 12):
        out.append([tailed[(seed * 11 + i * 17) % len(tailed)], "late"])
    return out


@lemma({"d": int, "n": int}, params=_window_params, budget=240, thorough_budget=400, per_path=60,
       bounds="a zone of the provider (fresh cached zone = what for_id builds) x EVERY instant within 40 days either side of a reference "
              "transition (stored periods, rule-generated ones up to 2100, and the last transition of year 9998; quick: ~10 seeded transitions plus 3 on cache-block boundaries plus one at the end of the timeline): "
              "start, end, name, wall offset and savings of the interval returned equal the independently decoded timeline")
def provider_window(P):
    from pyoda_time.time_zones._cached_date_time_zone import _CachedDateTimeZone
    zid, k = P
    _cs.prepare("ISO")
    _ymdrecord.install()
    ref = ref_file()
    if k == "late":
        ivs = R.tail_window_intervals(ref["zones"][zid], 9990, 9998)
        y9999 = (R.fixed_from_gregorian(9999, 1, 1) - R.RD_UNIX_EPOCH) * NPD
        k = max(i for i, iv in enumerate(ivs) if isinstance(iv[0], int) and iv[0] < y9999)
    else:
        ivs = R.reference_intervals(ref["zones"][zid], 1950, 2100)
    T = ivs[k][0]
    lo_d, hi_d = T // NPD - 40, T // NPD + 40
    near = [iv for iv in ivs if (iv[1] == R.MAX_T or iv[1] > lo_d * NPD) and (iv[0] == R.MIN_T or iv[0] <= (hi_d + 1) * NPD)]
    real = DateTimeZoneProviders.tzdb[zid]
    inner = real._time_zone if isinstance(real, _CachedDateTimeZone) else real

    def h(d, n):
        assume(lo_d <= d <= hi_d)
        assume(0 <= n < NPD)
        t = d * NPD + n
        zone = _CachedDateTimeZone._for_zone(inner)            # a fresh cache per path
        iv = zone.get_zone_interval(Instant._ctor(days=d, nano_of_day=n))
        want = None
        for cand in near:
            if (cand[0] == R.MIN_T or cand[0] <= t) and (cand[1] == R.MAX_T or t < cand[1]):
                want = cand
        if want is None:
            return False
        return (_inst_ns(iv._raw_start) == want[0] and _inst_ns(iv._raw_end) == want[1] and iv.name == want[2]
                and iv.wall_offset.seconds == want[3] and iv.savings.seconds == want[4])
    return h


# ------------------------------------------------------------------------------------------------ fixed-offset ids
@lemma({"neg": bool, "hh": int, "mi": int, "ss": int}, params=[["hh", 0, 99], ["hh:mm", 0, 99]] + [["hh:mm:ss", a, b] for a, b in ((0, 4), (5, 9), (10, 14), (15, 17), (18, 18), (19, 99))],
       budget=300, per_path=40,
       bounds="every id UTC+/-hh, UTC+/-hh:mm, UTC+/-hh:mm:ss with two-digit fields 00..99: resolves to the fixed zone of exactly that offset "
              "when the offset is within +-18h with minutes and seconds below 60, and to no zone otherwise")
def fixed_id(P):
    P, hlo, hhi = P

    def h(neg, hh, mi, ss):
        for v in (hh, mi, ss):
            assume(0 <= v <= 99)
        assume(hlo <= hh <= hhi)
        text = "UTC" + ("-" if neg else "+") + f"{hh:02}"
        total = hh * 3600
        ok = hh <= 18
        if P != "hh":
            text += f":{mi:02}"
            total += mi * 60
            ok = ok and mi <= 59
        else:
            assume(mi == 0)
        if P == "hh:mm:ss":
            text += f":{ss:02}"
            total += ss
            ok = ok and ss <= 59
        else:
            assume(ss == 0)
        ok = ok and total <= 64800
        z = _FixedDateTimeZone._get_fixed_zone_or_null(text)
        if not ok:
            return z is None
        return z is not None and z.offset.seconds == (-total if neg else total)
    return h


# ------------------------------------------------------------------------------------------------ premise: the whole file
@lemma(premise=True, params=lambda tier, seed: [tier], budget=900)
def premise_whole_file(P):
    """Auxiliary (concrete, finite data): id list = sorted canonical ids + aliases; every alias serves its canonical zone's data under
    the alias id; every stored period of every zone (and the rule-generated ones to 2200; thorough: to 9999 for every 10th zone) equals
    the independently decoded timeline; the file passes its own validation; version id."""
    from pyoda_time.time_zones._tzdb_date_time_zone_source import TzdbDateTimeZoneSource
    ref = ref_file()
    tz = DateTimeZoneProviders.tzdb
    bad = []
    want_ids = sorted(set(ref["zones"]) | set(ref["aliases"]))
    if list(tz.ids) != want_ids:
        bad.append("id list differs from the file's canonical ids + aliases, sorted")
    src = TzdbDateTimeZoneSource.default
    try:
        src.validate()
    except Exception as e:
        bad.append(f"validate: {e}")
    if ref["version"] not in tz.version_id:
        bad.append("version id")
    n = 0
    for j, (zid, z) in enumerate(sorted(ref["zones"].items())):
        far = P == "thorough" and j % 10 == 0
        ivs = R.reference_intervals(z, 1900, 9998 if far else 2200)
        real = tz[zid]
        for (s, e, name, wall, sav) in ivs:
            inst = Instant.min_value if s == R.MIN_T else Instant._ctor(days=s // NPD, nano_of_day=s % NPD)
            iv = real.get_zone_interval(inst)
            n += 1
            if (_inst_ns(iv._raw_start), _inst_ns(iv._raw_end), iv.name, iv.wall_offset.seconds, iv.savings.seconds) != (s, e, name, wall, sav):
                bad.append(f"{zid} at {s}")
                break
    for alias, canon in sorted(ref["aliases"].items()):
        a, c = tz[alias], tz[canon]
        if a.id != alias:
            bad.append(f"alias {alias} id")
        i0 = Instant.from_unix_time_seconds(1_000_000_000)
        ia, ic = a.get_zone_interval(i0), c.get_zone_interval(i0)
        if (_inst_ns(ia._raw_start), _inst_ns(ia._raw_end), ia.name, ia.wall_offset) != (_inst_ns(ic._raw_start), _inst_ns(ic._raw_end), ic.name, ic.wall_offset):
            bad.append(f"alias {alias} data")
    return (not bad), (f"mismatches: {bad[:6]}" if bad else f"{len(want_ids)} ids, {len(ref['aliases'])} aliases, {n} intervals agree; validate() passes")
