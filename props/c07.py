"""C07 — formatting then parsing with the same pattern returns the original value (invariant culture).
Symbolic formatting (fmtint plug-in) keeps the produced text symbolic, so format -> parse is one query per partition."""
from symx import stubs
from symx.driver import assume
from symx.lemma import lemma

stubs.standard()
stubs.stub_parse_messages()

from pyoda_time import Duration, LocalDate, LocalTime, Offset, PyodaConstants  # noqa: E402
from pyoda_time.text import DurationPattern, LocalDatePattern, LocalTimePattern, OffsetPattern  # noqa: E402

NPD = PyodaConstants.NANOSECONDS_PER_DAY
NS = 10 ** 9

# ------------------------------------------------------------------------------------------------ offsets: whole-value round trips
OFFSET_PATTERNS = {
    "g": lambda: OffsetPattern.general_invariant,
    "G": lambda: OffsetPattern.general_invariant_with_z,
    "l": lambda: OffsetPattern.create_with_invariant_culture("l"),
    "+HH:mm:ss": lambda: OffsetPattern.create_with_invariant_culture("+HH:mm:ss"),
    "-H:m:s": lambda: OffsetPattern.create_with_invariant_culture("-H:m:s"),
}
# partitions of the offset domain (cover [-64800, 64800]): sign x which of minutes/seconds are zero
OFFSET_PARTS = [(sg, k) for sg in ("+", "-") for k in ("h", "hm", "hms<10", "hms>=10")]


@lemma({"sec": int}, params=[[p, sg, k] for p in OFFSET_PATTERNS for (sg, k) in OFFSET_PARTS], budget=400, per_path=30,
       bounds="every Offset in +-18h (partitioned by sign and by whether its minute / second parts are zero) under the general patterns g and "
              "G, the long standard pattern and two custom patterns: parse(format(v)) == v, and formatting is deterministic")
def offset_roundtrip(P):
    pat = OFFSET_PATTERNS[P[0]]()
    sg, kind = P[1], P[2]

    def h(sec):
        assume(0 <= sec <= 64800 if sg == "+" else -64800 <= sec < 0)
        a = abs(sec)
        if kind == "h":
            assume(a % 3600 == 0)
        elif kind == "hm":
            assume(a % 3600 != 0)
            assume(a % 60 == 0)
        else:
            assume(a % 60 != 0)
            assume((a < 36000) == (kind == "hms<10"))
        v = Offset.from_seconds(sec)
        text = pat.format(v)
        r = pat.parse(text)
        return r.success and r.value.seconds == sec and pat.format(v) == text
    return h


# ------------------------------------------------------------------------------------------------ single-field patterns
TIME_FIELDS = {
    "HH": (0, 23, lambda v: v * 3600 * NS, lambda t: t.hour),
    "H": (0, 23, lambda v: v * 3600 * NS, lambda t: t.hour),
    "mm": (0, 59, lambda v: v * 60 * NS, lambda t: t.minute),
    "m": (0, 59, lambda v: v * 60 * NS, lambda t: t.minute),
    "ss": (0, 59, lambda v: v * NS, lambda t: t.second),
    "s": (0, 59, lambda v: v * NS, lambda t: t.second),
    "ss.fff": (0, 999, lambda v: v * 10 ** 6, lambda t: t.millisecond),
    "ss.ffffff": (0, 999999, lambda v: v * 1000, lambda t: t.nanosecond_of_second // 1000),
    "ss.fffffffff": (0, 999999999, lambda v: v, lambda t: t.nanosecond_of_second),
    "ss.FFFFFFFFF": (0, 999999999, lambda v: v, lambda t: t.nanosecond_of_second),
    "ss.FFF": (0, 999, lambda v: v * 10 ** 6, lambda t: t.millisecond),
}


@lemma({"v": int}, params=lambda tier, seed: list(TIME_FIELDS), budget=300,
       thorough_budget=1500, per_path=30,
       bounds="every value of the field's range under the single-field LocalTime pattern: parse(format(time with that field)) returns the field")
def time_field_roundtrip(P):
    lo, hi, mk, get = TIME_FIELDS[P]
    pat = LocalTimePattern.create_with_invariant_culture(P if len(P) > 1 else "%" + P)

    def h(v):
        assume(lo <= v <= hi)
        t = LocalTime._ctor(nanoseconds=mk(v))
        text = pat.format(t)
        r = pat.parse(text)
        return r.success and get(r.value) == v
    return h


@lemma({"hh": int, "mi": int}, params=["HH:mm", "H:mm", "HH.mm", "h:mm tt"], budget=300, per_path=30,
       bounds="every (hour, minute) under two-field LocalTime patterns (24-hour, unpadded, other separator, 12-hour with am/pm designator): "
              "whole-value round trip")
def time_two_field_roundtrip(P):
    pat = LocalTimePattern.create_with_invariant_culture(P)

    def h(hh, mi):
        assume(0 <= hh <= 23)
        assume(0 <= mi <= 59)
        t = LocalTime._ctor(nanoseconds=(hh * 60 + mi) * 60 * NS)
        r = pat.parse(pat.format(t))
        return r.success and r.value.nanosecond_of_day == t.nanosecond_of_day
    return h


@lemma({"hh": int, "mi": int, "ss": int, "f": int}, params=lambda tier, seed: [[p, a, b] for p in ("iso", "long-iso") for a in range(0, 24, 6) for b in (0,)],
       budget=300, thorough_budget=600, per_path=40,
       bounds="every whole-second LocalTime (partitioned by 6-hour block) under the built-in extended ISO patterns (HH:mm:ss;FFFFFFFFF and the "
              "9-digit long form): parse(format(t)) == t; fractions: time_iso_fraction_roundtrip")
def time_iso_roundtrip(P):
    pat = LocalTimePattern.extended_iso if P[0] == "iso" else LocalTimePattern.long_extended_iso
    h0, frac = P[1], P[2]

    def h(hh, mi, ss, f):
        assume(h0 <= hh < h0 + 6)
        assume(0 <= mi <= 59)
        assume(0 <= ss <= 59)
        assume(1 <= f <= 999999999 if frac else f == 0)
        n = ((hh * 60 + mi) * 60 + ss) * NS + f
        t = LocalTime._ctor(nanoseconds=n)
        r = pat.parse(pat.format(t))
        return r.success and r.value.nanosecond_of_day == n
    return h


@lemma({"f": int}, params=[[p, sig] for p in ("iso", "long-iso") for sig in range(1, 10)], budget=300, per_path=40,
       bounds="every fraction of a second with exactly the given number of significant digits (1..9) at the fixed time 12:34:56 (the fraction "
              "field is formatted and parsed after the hh:mm:ss fields, which time_iso_roundtrip covers) under the built-in extended ISO "
              "patterns: parse(format(t)) == t")
def time_iso_fraction_roundtrip(P):
    pat = LocalTimePattern.extended_iso if P[0] == "iso" else LocalTimePattern.long_extended_iso
    sig = P[1]

    def h(f):
        assume(1 <= f <= 999999999)
        assume(f % (10 ** (9 - sig)) == 0)
        assume(f % (10 ** (10 - sig)) != 0)
        n = ((12 * 60 + 34) * 60 + 56) * NS + f
        t = LocalTime._ctor(nanoseconds=n)
        r = pat.parse(pat.format(t))
        return r.success and r.value.nanosecond_of_day == n
    return h


DATE_FIELDS = {
    "MM": (1, 12, lambda v: (2000, v, 1), lambda d: d.month),
    "M": (1, 12, lambda v: (2000, v, 1), lambda d: d.month),
    "dd": (1, 31, lambda v: (2000, 1, v), lambda d: d.day),
    "d": (1, 31, lambda v: (2000, 1, v), lambda d: d.day),
    "uuuu": (-9998, 9999, lambda v: (v, 1, 1), lambda d: d.year),
    "yyyy": (1, 9999, lambda v: (v, 1, 1), lambda d: d.year),
}


@lemma({"v": int}, params=list(DATE_FIELDS), budget=300, per_path=30,
       bounds="every value of the field's range under the single-field LocalDate pattern (ISO calendar; absolute and era year, padded and "
              "unpadded month and day): parse(format(date with that field)) returns the field")
def date_field_roundtrip(P):
    from props import calsetup as cs
    from props import ymdrecord
    lo, hi, mk, get = DATE_FIELDS[P]
    cal, calc, _a, _b = cs.prepare("ISO")
    ymdrecord.install()
    pat = LocalDatePattern.create_with_invariant_culture(P if len(P) > 1 else "%" + P)

    def h(v):
        assume(lo <= v <= hi)
        y, m, d = mk(v)
        date = LocalDate._ctor(year_month_day_calendar=ymdrecord.YMDC(y, m, d, cal._ordinal))
        r = pat.parse(pat.format(date))
        return r.success and get(r.value) == v
    return h


@lemma({"y": int, "m": int, "d": int}, params=lambda tier, seed: [[p, k] for p in ("iso", "MM/dd/yyyy") for k in ((1, 2, 3, 4) if tier == "thorough" else (1, 2))]
       + ([["iso", "neg"]] if tier == "thorough" else []), budget=300, thorough_budget=1500, per_path=40,
       bounds="every valid ISO LocalDate (partitioned by the number of year digits; negative years for the ISO pattern) under LocalDatePattern.iso "
              "and a custom three-field pattern: parse(format(d)) == d")
def date_roundtrip(P):
    from props import calsetup as cs
    from props import ymdrecord
    cal, calc, _a, _b = cs.prepare("ISO")
    ymdrecord.install()
    pat = LocalDatePattern.iso if P[0] == "iso" else LocalDatePattern.create_with_invariant_culture(P[0])

    def h(y, m, d):
        if P[1] == "neg":
            assume(-9998 <= y <= 0)
        else:
            assume(10 ** (P[1] - 1) <= y < 10 ** P[1])
        assume(1 <= m <= 12)
        assume(1 <= d <= calc._get_days_in_month(y, m))
        date = LocalDate._ctor(year_month_day_calendar=ymdrecord.YMDC(y, m, d, cal._ordinal))
        r = pat.parse(pat.format(date))
        return r.success and r.value.year == y and r.value.month == m and r.value.day == d
    return h


@lemma({"days": int, "n": int}, params=lambda tier, seed: [[sg, k] for sg in ("+", "-") for k in (("small", "large") if tier == "thorough" else ("small",))],
       budget=300, thorough_budget=600, per_path=40,
       bounds="every Duration with a whole number of seconds (|days| < 10 or 10**6 <= |days| < 2**30, any second of day; both signs) under "
              "the built-in round-trip pattern -D:hh:mm:ss.FFFFFFFFF: parse(format(d)) == d")
def duration_roundtrip_seconds(P):
    pat = DurationPattern.roundtrip
    sg, k = P

    def h(days, n):
        assume(0 <= days < 10 if k == "small" else 10 ** 6 <= days < 2 ** 30 - 1)
        assume(0 <= n < 86400)
        total = (days * 86400 + n) * NS
        if sg == "-":
            total = -total
        v = Duration.from_nanoseconds(total)
        r = pat.parse(pat.format(v))
        return r.success and r.value.to_nanoseconds() == total
    return h


@lemma({"s": str}, params=[[p, L] for p in ("+HH:mm", "HH:mm") for L in (4, 5, 6)], budget=400, per_path=30,
       bounds="every text of length <= 6 that parses under a delimited fixed-width pattern (offset +HH:mm, time HH:mm): re-formatting the parsed value reproduces the text")
def reformat_parsed_text(PL):
    P, L = PL
    pat = OffsetPattern.create_with_invariant_culture(P) if P.startswith("+") else LocalTimePattern.create_with_invariant_culture(P)

    def h(s):
        assume(len(s) <= 4 if L == 4 else len(s) == L)          # partition by text length
        r = pat.parse(s)
        if not r.success:
            return True
        return pat.format(r.value) == s
    return h



NAME_LISTS = [["Cuma", "Cumartesi", "Pazar"], ["Cumartesi", "Cuma", "Pazar"], ["Me", "Met", "Metheven"], ["ab", "a", "abc"]]


@lemma({"k": int, "tail": str}, params=[0, 1, 2, 3], budget=120, per_path=30,
       bounds="the text-name matcher behind MMM/MMMM/ddd/dddd parsing (_SteppedPatternBuilder.__find_longest_match) over name lists in which one "
              "name is a proper prefix of another (as in tr-TR Cuma / Cumartesi), in either order: for a text = any listed name + any tail of <= 2 "
              "characters, the match is the LONGEST listed name that is a case-insensitive prefix of the text")
def longest_text_match(P):
    from pyoda_time.text._value_cursor import _ValueCursor
    from pyoda_time.text.patterns._stepped_pattern_builder import _SteppedPatternBuilder
    find = _SteppedPatternBuilder._SteppedPatternBuilder__find_longest_match
    names = NAME_LISTS[P]

    def h(k, tail):
        assume(0 <= k < len(names))
        assume(len(tail) <= 2)
        text = names[int(k)] + tail
        cur = _ValueCursor(text)
        cur.move(0)
        best, length = find(cur, names, -1, 0)
        want, wlen = -1, 0
        for i, c in enumerate(names):
            if len(c) > wlen and len(text) >= len(c) and text[:len(c)].lower() == c.lower():
                want, wlen = i, len(c)
        return best == want and length == wlen
    return h


from props import fpk  # noqa: E402

fpk.declare()
