"""C08 — parsing never raises; pattern creation fails only with InvalidPatternError (invariant culture)."""
from symx import stubs
from symx.driver import assume
from symx.lemma import lemma

stubs.standard()
stubs.stub_parse_messages()

from pyoda_time import Duration, LocalDate, LocalDateTime, LocalTime, Offset  # noqa: E402
from pyoda_time.text import (DurationPattern, InvalidPatternError, LocalDatePattern, LocalDateTimePattern, LocalTimePattern,  # noqa: E402
                             OffsetPattern)

for _cls in (LocalDateTime, LocalDate, LocalTime, Offset, Duration):
    # parse failures that embed the parsed value in a message must not realise it
    _cls.__repr__ = lambda self: "<value>"
    _cls.__format__ = lambda self, spec: "<value>"
stubs.STUBS_IN_FORCE.append("stub:value types __repr__/__format__ constant inside C08 harnesses (error messages embed values)")

PATTERNS = {
    "offset:g": lambda: OffsetPattern.general_invariant,
    "offset:G": lambda: OffsetPattern.general_invariant_with_z,
    "offset:+HH:mm": lambda: OffsetPattern.create_with_invariant_culture("+HH:mm"),
    "offset:-H:mm:ss": lambda: OffsetPattern.create_with_invariant_culture("-H:mm:ss"),
    "time:iso": lambda: LocalTimePattern.extended_iso,
    "time:HH:mm": lambda: LocalTimePattern.create_with_invariant_culture("HH:mm"),
    "time:h:mm tt": lambda: LocalTimePattern.create_with_invariant_culture("h:mm tt"),
    "date:iso": lambda: LocalDatePattern.iso,
    "date:d/M/yy": lambda: LocalDatePattern.create_with_invariant_culture("d/M/yy"),
    "date:uuuu-MM": lambda: LocalDatePattern.create_with_invariant_culture("uuuu-MM"),      # a year pattern that takes the general (non-optimised) path
    "duration:roundtrip": lambda: DurationPattern.roundtrip,
    "duration:H:mm": lambda: DurationPattern.create_with_invariant_culture("-H:mm"),
    "datetime:iso": lambda: LocalDateTimePattern.extended_iso,
}


def _valid(v):
    if isinstance(v, Offset):
        return -64800 <= v.seconds <= 64800
    if isinstance(v, LocalTime):
        return 0 <= v.nanosecond_of_day < 86400 * 10 ** 9
    if isinstance(v, Duration):
        return Duration._MIN_DAYS <= v._floor_days <= Duration._MAX_DAYS and 0 <= v._nanosecond_of_floor_day < 86400 * 10 ** 9
    if isinstance(v, LocalDate):
        cal = v.calendar
        if not cal.min_year <= v.year <= cal.max_year:
            return False
        return 1 <= v.month <= cal.get_months_in_year(v.year) and 1 <= v.day <= cal.get_days_in_month(v.year, v.month)
    if isinstance(v, LocalDateTime):
        return 1 <= v.month <= 12 and 1 <= v.day <= 31 and 0 <= v.nanosecond_of_day < 86400 * 10 ** 9
    return v is not None


def _outcome_ok(r):
    """parse() returned: success carries a valid value, failure produces its exception on request"""
    if r.success:
        return _valid(r.value)
    e = r.exception
    return isinstance(e, Exception)


# fully symbolic text lengths per pattern: the length of the longest ordinary text of the pattern plus one (the ISO date-time, 19+ characters,
# stops at 10 - its longer texts are parse_numeric_skeleton's)
TEXT_LEN = {"offset:g": 10, "offset:G": 10, "offset:+HH:mm": 7, "offset:-H:mm:ss": 9, "time:iso": 12, "time:HH:mm": 6, "time:h:mm tt": 8,
            "date:iso": 11, "date:d/M/yy": 9, "date:uuuu-MM": 9, "duration:roundtrip": 12, "duration:H:mm": 8, "datetime:iso": 10}


@lemma({"s": str}, params=lambda tier, seed: [[k, TEXT_LEN[k] if tier == "quick" else TEXT_LEN[k] + 1] for k in PATTERNS], budget=400, thorough_budget=900,
       per_path=40,
       bounds="every text up to the pattern's natural length + 1 (6..12 characters; one more in thorough), EVERY character (all of Unicode), per "
              "pattern: parse returns a result object whose success carries a valid value; no exception escapes")
def parse_short_text(P):
    pat = PATTERNS[P[0]]()
    n = P[1]

    def h(s):
        assume(len(s) <= n)
        return _outcome_ok(pat.parse(s))
    return h


def _num_text(kind):
    """numeric skeleton: concrete separators, every numeric field rendered from a symbolic int (valid and out-of-range values alike)"""
    if kind == "duration:roundtrip":
        pat = DurationPattern.roundtrip

        def h(neg, a, b, c, d):
            assume(0 <= a <= 2 ** 32)
            for v in (b, c, d):
                assume(0 <= v <= 99)
            text = ("-" if neg else "") + f"{a}:{b:02}:{c:02}:{d:02}"
            return _outcome_ok(pat.parse(text))
        return h, {"neg": bool, "a": int, "b": int, "c": int, "d": int}
    if kind == "duration:fraction":
        pat = DurationPattern.roundtrip

        def h(neg, a, d, f):
            assume(1073741820 <= a <= 1073741829)        # around the +-2**30-day range edge
            assume(0 <= d <= 1)
            assume(0 <= f <= 999999999)
            text = ("-" if neg else "") + f"{a}:00:00:{d:02}.{f:09}"
            return _outcome_ok(pat.parse(text))
        return h, {"neg": bool, "a": int, "d": int, "f": int}
    if kind == "offset:+HH:mm:ss":
        pat = OffsetPattern.create_with_invariant_culture("+HH:mm:ss")

        def h(neg, a, b, c):
            for v in (a, b, c):
                assume(0 <= v <= 99)
            text = ("-" if neg else "+") + f"{a:02}:{b:02}:{c:02}"
            return _outcome_ok(pat.parse(text))
        return h, {"neg": bool, "a": int, "b": int, "c": int}
    if kind == "offset:+HH:mm":
        pat = OffsetPattern.create_with_invariant_culture("+HH:mm")

        def h(neg, a, b):
            for v in (a, b):
                assume(0 <= v <= 99)
            text = ("-" if neg else "+") + f"{a:02}:{b:02}"
            return _outcome_ok(pat.parse(text))
        return h, {"neg": bool, "a": int, "b": int}
    if kind == "time:HH:mm:ss":
        pat = LocalTimePattern.create_with_invariant_culture("HH:mm:ss")

        def h(a, b, c):
            for v in (a, b, c):
                assume(0 <= v <= 99)
            return _outcome_ok(pat.parse(f"{a:02}:{b:02}:{c:02}"))
        return h, {"a": int, "b": int, "c": int}
    if kind == "date:iso":
        pat = LocalDatePattern.iso

        def h(neg, y, m, d):
            assume(0 <= y <= 99999)
            for v in (m, d):
                assume(0 <= v <= 99)
            return _outcome_ok(pat.parse(("-" if neg else "") + f"{y:04}-{m:02}-{d:02}"))
        return h, {"neg": bool, "y": int, "m": int, "d": int}
    if kind == "date:MM-dd c":
        from pyoda_time import CalendarSystem
        pat = LocalDatePattern.create_with_invariant_culture("MM-dd c")
        ids = list(CalendarSystem.ids)

        def h(a, m, d):
            assume(0 <= a < len(ids))
            for v in (m, d):
                assume(0 <= v <= 99)
            return _outcome_ok(pat.parse(f"{m:02}-{d:02} " + ids[int(a)]))
        return h, {"a": int, "m": int, "d": int}
    if kind == "datetime:iso":
        pat = LocalDateTimePattern.extended_iso

        def h(y, m, d, hh, mi, ss):
            assume(9990 <= y <= 9999)
            for v in (m, d, hh, mi, ss):
                assume(0 <= v <= 99)
            return _outcome_ok(pat.parse(f"{y:04}-{m:02}-{d:02}T{hh:02}:{mi:02}:{ss:02}"))
        return h, {"y": int, "m": int, "d": int, "hh": int, "mi": int, "ss": int}
    raise KeyError(kind)


def _num_params(tier, seed):
    if tier == "thorough":
        return NUM_KINDS
    # quick: every kind; of the duration day-count partitions the shortest and the longest (all ten in thorough)
    return [k for k in NUM_KINDS if k[0] in ("offset:+HH:mm:ss", "offset:+HH:mm", "time:HH:mm:ss", "date:iso", "datetime:iso", "duration:fraction", "date:MM-dd c")
            or (k[0] == "duration:roundtrip" and k[1] in (1, 10))]


NUM_KINDS = ([["duration:roundtrip", k] for k in range(1, 11)] + [["duration:fraction", 0]] + [["offset:+HH:mm:ss", 0], ["offset:+HH:mm", 0], ["time:HH:mm:ss", 0]]
             + [["date:iso", k] for k in (4, 5)] + [["datetime:iso", k] for k in (0, 1, 2, 3)] + [["date:MM-dd c", 0]])
_NUM_ARGS = {"neg": bool, "a": int, "b": int, "c": int, "d": int, "f": int, "y": int, "m": int, "hh": int, "mi": int, "ss": int}


@lemma(_NUM_ARGS, params=_num_params, budget=300, thorough_budget=1200, per_path=40,
       bounds="texts with the pattern's separators in place and EVERY numeric field rendered from a symbolic integer (0..99 for two-digit "
              "fields, days up to 2**32, years up to 99999, fractions up to 9 digits; valid and out-of-range values): parse returns a result; no exception escapes")
def parse_numeric_skeleton(PK):
    P, part = PK
    h, used = _num_text(P)

    def g(**kw):
        # partitions (each family of partitions covers the lemma's domain)
        if P == "duration:roundtrip":
            assume(10 ** (part - 1) <= kw["a"] < 10 ** part if part > 1 else kw["a"] < 10)     # number of digits of the day count
        elif P == "date:iso":
            assume((kw["y"] < 10000) == (part == 4))
        elif P == "datetime:iso":
            assume((kw["hh"] >= 24) == (part >= 2))
            assume((kw["d"] >= 31) == (part % 2 == 1))
        return h(**{k: kw[k] for k in used})
    return g


ALPHABET = "Hhmsft+-Zg:.'\\%<> 09yMdu"


def _create_params(tier, seed):
    out = []
    for t in ("offset", "time", "date", "duration"):
        out.append([t, 2, -1])
        if tier == "thorough":
            out += [[t, 3, k] for k in range(len(ALPHABET))]
    return out


@lemma({"c0": int, "c1": int, "c2": int, "n": int}, params=_create_params, budget=300, thorough_budget=600, per_path=30,
       bounds="every pattern text of length <= 2 (quick) / exactly 3 partitioned by first character (thorough) over a 25-character pattern "
              "alphabet (field letters, quotes, backslash, %, <, >, digits, space, separators) per pattern type; characters are chosen by "
              "forking on symbolic indices (a symbolic pattern string defeats CPython's nested format specs): "
              "create_with_invariant_culture returns or raises InvalidPatternError only")
def create_short_pattern(P):
    cls = {"offset": OffsetPattern, "time": LocalTimePattern, "date": LocalDatePattern, "duration": DurationPattern}[P[0]]
    length, first = P[1], P[2]

    def h(c0, c1, c2, n):
        if first >= 0:
            assume(n == 3)
            assume(c0 == first)
        else:
            assume(0 <= n <= length)
        for c in (c0, c1, c2):
            assume(0 <= c < len(ALPHABET))
        text = "".join(ALPHABET[int(c)] for c in (c0, c1, c2)[:int(n)])
        try:
            cls.create_with_invariant_culture(text)
        except InvalidPatternError:
            pass
        return True
    return h


# ------------------------------------------------------------------------------------------------ bucket-level units
@lemma({"nanos": int, "neg": bool}, budget=60,
       bounds="_DurationParseBucket.calculate_value for EVERY accumulated nanosecond total |n| <= 10**25 and either sign flag (whatever "
              "fields produced it): returns a failure result or a valid Duration equal to the signed total; never raises")
def bucket_duration(nanos, neg):
    from pyoda_time.text._duration_pattern_parser import _DurationPatternParser
    from pyoda_time.text.patterns._pattern_fields import _PatternFields
    assume(0 <= nanos <= 10 ** 25)
    b = _DurationPatternParser._DurationParseBucket()
    b._add_nanoseconds(nanos)
    b._is_negative = neg
    r = b.calculate_value(_PatternFields.NONE, "text")
    total = -nanos if neg else nanos
    fits = Duration._MIN_NANOSECONDS <= total <= Duration._MAX_NANOSECONDS
    if r.success:
        return fits and _valid(r.value) and r.value.to_nanoseconds() == total
    return (not fits) and isinstance(r.exception, Exception)


@lemma({"hh": int, "mi": int, "ss": int, "neg": bool}, budget=60,
       bounds="_OffsetParseBucket.calculate_value for every field combination the field parsers can deliver (hours 0..23, minutes and "
              "seconds 0..59, either sign): a valid Offset equal to the signed total, or a failure result beyond +-18h; never raises")
def bucket_offset(hh, mi, ss, neg):
    from pyoda_time.text._offset_pattern_parser import _OffsetParseBucket
    from pyoda_time.text.patterns._pattern_fields import _PatternFields
    assume(0 <= hh <= 23)
    assume(0 <= mi <= 59)
    assume(0 <= ss <= 59)
    r = _OffsetParseBucket(hh, mi, ss, neg).calculate_value(_PatternFields.NONE, "text")
    total = (hh * 3600 + mi * 60 + ss) * (-1 if neg else 1)
    if r.success:
        return -64800 <= total <= 64800 and r.value.seconds == total
    return not (-64800 <= total <= 64800) and isinstance(r.exception, Exception)
