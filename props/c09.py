"""C09 — date arithmetic and Period.between laws."""
from symx import stubs
from symx.driver import assume
from symx.lemma import lemma

stubs.standard()

from crosshair.core import register_patch  # noqa: E402

from props import calsetup as cs  # noqa: E402
from props import ymdrecord  # noqa: E402
from pyoda_time import CalendarSystem, LocalDate, LocalTime, Period, PeriodUnits, PyodaConstants, YearMonth  # noqa: E402
from pyoda_time._year_month_day import _YearMonthDay  # noqa: E402
from pyoda_time.calendars._year_month_day_calculator import _YearMonthDayCalculator  # noqa: E402

NPD = PyodaConstants.NANOSECONDS_PER_DAY


def _setup(P):
    cid, lo, hi = cs.unP(P)
    cal, calc, lo, hi = cs.prepare(cid, lo, hi, tabulate_months=True)
    ymdrecord.install()
    before = cs.reset_hebrew_cache if cid.startswith("Hebrew") else None
    return cal, calc, lo, hi, before


def _date_params(window_islamic=60, k=1, inner=True):
    def gen(tier, seed):
        out = [cs.P(c) for c in ("ISO", "Julian", "Coptic")]
        uq = cs.windows("Um Al Qura", 61)
        out += [cs.P("Um Al Qura", *w) for w in (uq if tier == "thorough" else cs.pick(uq, seed, 1))]
        isl = cs.ISLAMIC if tier == "thorough" else cs.pick(cs.ISLAMIC, seed, 1)
        for c in isl:
            ws = cs.windows(c, window_islamic)
            ws = ws if tier == "thorough" else cs.pick(ws, seed, 1)
            out += [cs.P(c, *w) for w in ws]
        for c in cs.WINDOWED:
            ws = cs.windows(c)
            ws = ws if tier == "thorough" else cs.pick(ws, seed + len(c), k)
            out += [cs.P(c, *w) for w in ws]
        return out
    return gen


def mkdate(cal, calc, lo, hi, year, month, day, margin=0):
    assume(lo + margin <= year <= hi - margin)
    assume(1 <= month <= calc._get_months_in_year(year))
    assume(1 <= day <= calc._get_days_in_month(year, month))
    return LocalDate(year, month, day, cal)


# ---------------------------------------------------------------------------------------------------------------- plus days
def _fast_params(tier, seed):
    ps = _date_params()(tier, seed)
    if tier == "quick":   # ~1 s/path on the Hebrew and Um Al Qura tables: per-calendar fast path for them only in thorough
        ps = [p for p in ps if not (p.startswith("Hebrew") or p.startswith("Um Al Qura"))]   # (the generic lemma covers every calendar)
    return [[p, m] for p in ps for m in ("d+", "d-", "w+", "w-")]


@lemma({"year": int, "month": int, "day": int, "n": int}, params=_fast_params, budget=150, thorough_budget=300, per_path=30,
       bounds="every valid date (1 year inside the range/window edge) x every n (days, or weeks*7) with |n| < 300 (the whole fast path; "
              "4 partitions: days/weeks x sign of n, n = 0 in the '+' partitions): "
              "result is a valid date whose (year, day-of-year) is the expected pair computed from doy + n and the adjacent year lengths "
              "(with C01.split and C01.yearlen: exactly n days later)")
def plusdays_fast(PM):
    P, mode = PM
    cal, calc, lo, hi, before = _setup(P)
    weeks = mode[0] == "w"
    positive = mode[1] == "+"

    def h(year, month, day, n):
        d0 = mkdate(cal, calc, lo, hi, year, month, day, margin=1)
        assume(n >= 0 if positive else n < 0)
        if weeks:
            assume(-42 <= n <= 42)
            amount = 7 * n
            r = d0.plus_weeks(n)
        else:
            assume(-299 <= n <= 299)
            amount = n
            r = d0.plus_days(n)
        doy = calc._get_days_from_start_of_year_to_start_of_month(year, month) + day
        t = doy + amount
        ey = year
        if t < 1:
            ey = year - 1
            t += calc._get_days_in_year(ey)
        elif t > calc._get_days_in_year(year):
            t -= calc._get_days_in_year(year)
            ey = year + 1
        ok = 1 <= t <= calc._get_days_in_year(ey)      # the oracle itself is well formed (|n| < every year length)
        ry, rm, rd = r.year, r.month, r.day
        ok = ok and ry == ey and 1 <= rm <= calc._get_months_in_year(ry) and 1 <= rd <= calc._get_days_in_month(ry, rm)
        ok = ok and calc._get_days_from_start_of_year_to_start_of_month(ry, rm) + rd == t
        return ok and r.calendar is cal and d0.year == year and d0.month == month and d0.day == day
    return h, before


class _ProbeYMD:
    def __init__(self, days):
        self.days = days

    def _with_calendar_ordinal(self, o):
        return self

    def _with_calendar(self, c):
        return self


def _slow_params(tier, seed):
    ps = _date_params()(tier, seed)
    return ps if tier == "thorough" else [p for p in ps if not (p.startswith("Hebrew") or p.startswith("Um Al Qura") or p == "ISO")]


@lemma({"year": int, "month": int, "day": int, "n": int, "weeks": bool}, params=_slow_params, budget=100, thorough_budget=300, per_path=30,
       bounds="every valid date x every n with 300 <= |n| <= 10**7 days (or weeks): the day number handed to the calendar's day->date "
              "conversion (C01) is exactly days(date) + n, and results outside the calendar range raise")
def plusdays_slow(P):
    cal, calc, lo, hi, before = _setup(P)
    register_patch(_YearMonthDayCalculator._get_year_month_day_from_days_since_epoch, lambda self, d: _ProbeYMD(d))
    stubs.STUBS_IN_FORCE.append("probe:_get_year_month_day_from_days_since_epoch returns a probe carrying its argument "
                                "(day -> date conversion is C01's subject)")

    def h(year, month, day, n, weeks):
        d0 = mkdate(cal, calc, lo, hi, year, month, day)
        if weeks:
            assume(43 <= n <= 10 ** 6 or -10 ** 6 <= n <= -43)
            amount = 7 * n
        else:
            assume(300 <= n <= 10 ** 7 or -10 ** 7 <= n <= -300)
            amount = n
        base = d0._days_since_epoch            # the code's own coordinate (its correctness is C01.days)
        want = base + amount
        inr = cal._min_days <= want <= cal._max_days
        try:
            r = d0.plus_weeks(n) if weeks else d0.plus_days(n)
        except (ValueError, OverflowError):
            return not inr
        probe = r._LocalDate__year_month_day_calendar
        if isinstance(probe, _ProbeYMD):
            return inr and probe.days == want
        # concrete replay (patches inactive) or a code path that does not go through the day -> date conversion: compare day numbers
        return inr and (calc._get_start_of_year_in_days(r.year) + calc._get_days_from_start_of_year_to_start_of_month(r.year, r.month)
                        + r.day - 1) == want and 1 <= r.month <= calc._get_months_in_year(r.year) and 1 <= r.day <= calc._get_days_in_month(r.year, r.month)
    return h, before


# ---------------------------------------------------------------------------------------------------------------- months / years
REGULAR = ["ISO", "Julian", "Coptic", "Um Al Qura"]


def _regular_params(tier, seed):
    out = [cs.P(c) for c in REGULAR if c != "Um Al Qura"]
    uq = cs.windows("Um Al Qura", 61)
    out += [cs.P("Um Al Qura", *w) for w in (uq if tier == "thorough" else [])]      # ~140 s per window: thorough only
    isl = cs.ISLAMIC if tier == "thorough" else cs.pick(cs.ISLAMIC, seed, 1)
    for c in isl:
        ws = cs.windows(c, 60)
        out += [cs.P(c, *w) for w in (ws if tier == "thorough" else cs.pick(ws, seed, 1))]
    for c in cs.PERSIAN:
        ws = cs.windows(c)
        out += [cs.P(c, *w) for w in (ws if tier == "thorough" else cs.pick(ws, seed + len(c), 1))]
    return out


@lemma({"year": int, "month": int, "day": int, "n": int}, params=_regular_params, budget=200, thorough_budget=400, per_path=30,
       bounds="regular calendars (fixed month count M, year starts at month 1): every valid date x every n in [-200000, 200000] whose "
              "target year is inside the range (window): lands in month index (year*M + month-1 + n) divmod M, day clamped to the target month")
def addmonths(P):
    cal, calc, lo, hi, before = _setup(P)
    M = calc._get_months_in_year(lo)

    def h(year, month, day, n):
        d0 = mkdate(cal, calc, lo, hi, year, month, day)
        assume(-200000 <= n <= 200000)
        idx = year * M + (month - 1) + n
        ey, em = idx // M, idx % M + 1
        assume(lo <= ey <= hi)
        r = d0.plus_months(n)
        ed = min(day, calc._get_days_in_month(ey, em))
        return r.year == ey and r.month == em and r.day == ed and r.calendar is cal
    return h, before


@lemma({"year": int, "month": int, "day": int, "n": int}, params=["ISO", "Julian", "Coptic"], budget=120, per_path=30,
       bounds="ISO/Julian/Coptic: every valid date x every n in [-300000, 300000] whose target year is OUTSIDE the calendar range: plus_months raises")
def addmonths_overflow(P):
    cal, calc, lo, hi, before = _setup(P)
    M = calc._get_months_in_year(lo)

    def h(year, month, day, n):
        d0 = mkdate(cal, calc, lo, hi, year, month, day)
        assume(-300000 <= n <= 300000)
        idx = year * M + (month - 1) + n
        ey = idx // M
        assume(ey < lo or ey > hi)
        try:
            d0.plus_months(n)
        except Exception:  # noqa: BLE001  (the property says "raising")
            return True
        return False
    return h, before


@lemma({"year": int, "month": int, "day": int, "n": int}, params=_regular_params, budget=120, thorough_budget=300, per_path=30,
       bounds="regular calendars: every valid date x every n in [-30000, 30000]: plus_years keeps the month, clamps the day, raises iff the year leaves the range")
def addyears(P):
    cal, calc, lo, hi, before = _setup(P)
    ymin, ymax = calc._min_year, calc._max_year
    windowed = "|" in P

    def h(year, month, day, n):
        d0 = mkdate(cal, calc, lo, hi, year, month, day)
        assume(-30000 <= n <= 30000)
        ey = year + n
        if windowed:
            assume(lo <= ey <= hi)
        inr = ymin <= ey <= ymax
        try:
            r = d0.plus_years(n)
        except (ValueError, OverflowError):
            return not inr
        if not inr:
            return False
        return r.year == ey and r.month == month and r.day == min(day, calc._get_days_in_month(ey, month))
    return h, before


@lemma({"y1": int, "m1": int, "d1": int, "y2": int, "m2": int, "d2": int}, params=lambda tier, seed: ["Julian", "Coptic"] + (["ISO"] if tier == "thorough" else []), budget=240,
       thorough_budget=600, per_path=40,
       bounds="regular calendars, years within +-200 of year 2000 (Coptic: 1700..2100): months_between is maximal: start + k months lies "
              "between start and end and one more month overshoots (lexicographic order = day order by C01)")
def months_between_maximal(P):
    cal, calc, lo, hi, before = _setup(P)
    a, b = (1800, 2200) if P != "Coptic" else (1700, 2100)

    def lt(x, y):
        return (x.year, x.month, x.day) < (y.year, y.month, y.day)

    def h(y1, m1, d1, y2, m2, d2):
        s = mkdate(cal, calc, a, b, y1, m1, d1)
        e = mkdate(cal, calc, a, b, y2, m2, d2)
        k = Period.between(s, e, PeriodUnits.MONTHS).months
        r = s.plus_months(k)
        if not lt(e, s):   # s <= e
            nxt = s.plus_months(k + 1)
            return k >= 0 and not lt(e, r) and lt(e, nxt)
        prv = s.plus_months(k - 1)
        return k <= 0 and not lt(r, e) and lt(prv, e)
    return h, before


# ---------------------------------------------------------------------------------------------------------------- LocalTime between
TIME_UNITS = [("hours", PeriodUnits.HOURS, 3600 * 10 ** 9), ("minutes", PeriodUnits.MINUTES, 60 * 10 ** 9),
              ("seconds", PeriodUnits.SECONDS, 10 ** 9), ("milliseconds", PeriodUnits.MILLISECONDS, 10 ** 6),
              ("ticks", PeriodUnits.TICKS, 100), ("nanoseconds", PeriodUnits.NANOSECONDS, 1)]


LDT_UNITS = {
    "days": (PeriodUnits.DAYS, [("days", NPD)]),
    "weeks": (PeriodUnits.WEEKS, [("weeks", 7 * NPD)]),
    "weeks+days": (PeriodUnits.WEEKS | PeriodUnits.DAYS, [("weeks", 7 * NPD), ("days", NPD)]),
    "days+nanoseconds": (PeriodUnits.DAYS | PeriodUnits.NANOSECONDS, [("days", NPD), ("nanoseconds", 1)]),
    "days+hours+minutes": (PeriodUnits.DAYS | PeriodUnits.HOURS | PeriodUnits.MINUTES, [("days", NPD), ("hours", 3600 * 10 ** 9), ("minutes", 60 * 10 ** 9)]),
    "weeks+seconds": (PeriodUnits.WEEKS | PeriodUnits.SECONDS, [("weeks", 7 * NPD), ("seconds", 10 ** 9)]),
    "hours": (PeriodUnits.HOURS, [("hours", 3600 * 10 ** 9)]),
    "ticks": (PeriodUnits.TICKS, [("ticks", 100)]),
}


@lemma({"d1": int, "n1": int, "d2": int, "n2": int}, params=[[u, sg] for u in LDT_UNITS for sg in ("fwd", "bwd", "same-time")], budget=120, per_path=40,
       bounds="Period.between(LocalDateTime, LocalDateTime, units) on the DayCalendar (dates = day numbers, so only the fixed-length units: "
              "weeks, days and the time units; 8 unit sets incl. single-unit fast paths), every pair of date-times up to +-400 days "
              "apart, partitioned into end after start / end before start / EQUAL times of day (both directions): each component is "
              "the truncated quotient of what the coarser units left, all of one sign, start + period lies between start and end and "
              "the finest unit's remainder is smaller than that unit")
def between_datetimes(PS):
    from props import daycal
    from pyoda_time import LocalDateTime
    uname, sg = PS
    units, comps = LDT_UNITS[uname]
    host = daycal.host("Coptic")
    daycal.install_plus_days_contract()

    def h(d1, n1, d2, n2):
        assume(host._min_days + 10 <= d1 <= host._max_days - 10)
        assume(-400 <= d2 - d1 <= 400)
        assume(0 <= n1 < NPD)
        assume(0 <= n2 < NPD)
        diff = (d2 - d1) * NPD + n2 - n1
        if sg == "same-time":
            assume(n1 == n2)
            assume(d1 != d2)
        else:
            assume(n1 != n2)
            assume((diff > 0) == (sg == "fwd"))
        s = LocalDateTime._ctor(local_date=daycal.date(host, d1), local_time=LocalTime._ctor(nanoseconds=n1))
        e = LocalDateTime._ctor(local_date=daycal.date(host, d2), local_time=LocalTime._ctor(nanoseconds=n2))
        p = Period.between(s, e, units)
        rest = diff
        ok = True
        for nm, size in comps:
            v = getattr(p, nm)
            # v == trunc(rest / size), stated without division
            r = rest - v * size
            ok = ok and (0 <= r < size if diff >= 0 else -size < r <= 0) and (v == 0 or (v > 0) == (diff > 0))
            rest = r
        named = {nm for nm, _ in comps}
        for nm in ("years", "months", "weeks", "days", "hours", "minutes", "seconds", "milliseconds", "ticks", "nanoseconds"):
            if nm not in named:
                ok = ok and getattr(p, nm) == 0
        return ok
    return h


@lemma({"a": int, "b": int}, params=list(range(1, 64)), budget=60,
       bounds="every pair of times of day x one of the 63 non-empty subsets of the six time units (subset = parameter)")
def between_times(P):
    names = [t for i, t in enumerate(TIME_UNITS) if P >> i & 1]
    units = PeriodUnits.NONE
    for _, u, _ in names:
        units |= u
    finest = names[-1][2]

    def h(a, b):
        assume(0 <= a < NPD)
        assume(0 <= b < NPD)
        s, e = LocalTime._ctor(nanoseconds=a), LocalTime._ctor(nanoseconds=b)
        p = Period.between(s, e, units)
        total = 0
        pos = neg = False
        for nm, _u, size in TIME_UNITS:
            v = getattr(p, nm)
            if not any(nm == x[0] for x in names) and v != 0:
                return False                       # only requested units are non-zero
            total += v * size
            pos = pos or v > 0
            neg = neg or v < 0
        if pos and neg:
            return False                           # one sign
        diff = b - a
        # start + period lies between start and end (inclusive), reaches end when the finest unit divides the rest, and is maximal
        ok = (0 <= total <= diff) if diff >= 0 else (diff <= total <= 0)
        ok = ok and abs(diff - total) < finest
        ok = ok and p.years == 0 and p.months == 0 and p.weeks == 0 and p.days == 0
        return ok and (s + p).nanosecond_of_day == (a + total) % NPD
    return h


# ---------------------------------------------------------------------------------------------------------------- YearMonth
@lemma({"y1": int, "m1": int, "y2": int, "m2": int}, params=[1, 2, 3], budget=120, per_path=30,
       bounds="every pair of ISO year-months with years in [-9000, 9000]; units (parameter) in {1: YEARS, 2: MONTHS, 3: YEARS|MONTHS}")
def between_yearmonth(u):
    ymdrecord.install()
    cs.prepare("ISO")

    def h(y1, m1, y2, m2):
        return _between_yearmonth(y1, m1, y2, m2, u)
    return h


def _between_yearmonth(y1, m1, y2, m2, u):
    assume(-9000 <= y1 <= 9000)
    assume(-9000 <= y2 <= 9000)
    assume(1 <= m1 <= 12)
    assume(1 <= m2 <= 12)
    units = PeriodUnits.YEARS if u == 1 else PeriodUnits.MONTHS if u == 2 else (PeriodUnits.YEARS | PeriodUnits.MONTHS)
    s, e = YearMonth(year=y1, month=m1), YearMonth(year=y2, month=m2)
    p = Period.between(s, e, units)
    diff = (y2 * 12 + m2) - (y1 * 12 + m1)
    tot = p.years * 12 + p.months
    ok = p.weeks == 0 and p.days == 0 and not p.has_time_component
    ok = ok and not (p.years > 0 and p.months < 0) and not (p.years < 0 and p.months > 0)
    if u == 1:
        q = abs(diff) // 12
        return ok and p.months == 0 and p.years == (q if diff >= 0 else -q)
    if u == 2:
        return ok and p.years == 0 and p.months == diff
    return ok and tot == diff and -11 <= p.months <= 11


# ---------------------------------------------------------------------------------------------------------------- normalize / duration
def _comp(x, unit, container):
    """component of x: magnitude (|x| div unit) mod container, carrying the sign of x"""
    mag = (abs(x) // unit) % container
    return mag if x >= 0 else -mag


NORMALIZED = {
    "days": lambda q, total: q.days == (abs(total) // NPD if total >= 0 else -(abs(total) // NPD)),
    "hours": lambda q, total: q.hours == _comp(total, 3600 * 10 ** 9, 24),
    "minutes": lambda q, total: q.minutes == _comp(total, 60 * 10 ** 9, 60),
    "seconds": lambda q, total: q.seconds == _comp(total, 10 ** 9, 60),
    "milliseconds": lambda q, total: q.milliseconds == _comp(total, 10 ** 6, 1000),
    "nanoseconds": lambda q, total: q.nanoseconds == _comp(total, 1, 10 ** 6),
    "rest": lambda q, total: q.weeks == 0 and q.ticks == 0,
}


@lemma({"w": int, "d": int, "hh": int, "mi": int, "s": int, "ms": int, "t": int, "ns": int, "y": int, "mo": int}, budget=60,
       bounds="every period with |component| <= 10**12: the private fixed-length total is the documented linear combination")
def period_total(w, d, hh, mi, s, ms, t, ns, y, mo):
    for v in (w, d, hh, mi, s, ms, t, ns, y, mo):
        assume(-10 ** 12 <= v <= 10 ** 12)
    p = Period._ctor(years=y, months=mo, weeks=w, days=d, hours=hh, minutes=mi, seconds=s, milliseconds=ms, ticks=t, nanoseconds=ns)
    total = ns + t * 100 + ms * 10 ** 6 + s * 10 ** 9 + mi * 60 * 10 ** 9 + hh * 3600 * 10 ** 9 + d * NPD + w * 7 * NPD
    return p._Period__total_nanoseconds == total and p.years == y and p.months == mo


@lemma({"total": int, "y": int, "mo": int}, params=list(NORMALIZED), budget=120, per_path=30,
       bounds="normalize() reads a period only through its fixed-length total (period_total) and years/months: for every total with "
              "|total| <= 10**25 ns (carried in the nanoseconds component), each normalised component is the mixed-radix digit of the "
              "total with the total's sign; weeks = ticks = 0; years/months kept (one component per instance)")
def normalize_component(P):
    chk = NORMALIZED[P]

    def h(total, y, mo):
        assume(-10 ** 25 <= total <= 10 ** 25)
        assume(-10 ** 6 <= y <= 10 ** 6)
        assume(-10 ** 6 <= mo <= 10 ** 6)
        p = Period._ctor(years=y, months=mo, nanoseconds=total)
        q = p.normalize()
        return chk(q, total) and q.years == y and q.months == mo and p.nanoseconds == total
    return h


@lemma({"total": int, "y": int, "mo": int}, budget=60,
       bounds="every period (through its total, |total| <= 10**25): to_duration is the total when it fits a Duration, raises ValueError/"
              "OverflowError when it does not, RuntimeError iff years or months are non-zero")
def to_duration_total(total, y, mo):
    from pyoda_time import Duration
    assume(-10 ** 25 <= total <= 10 ** 25)
    assume(-10 <= y <= 10)
    assume(-10 <= mo <= 10)
    p = Period._ctor(years=y, months=mo, nanoseconds=total)
    if y == 0 and mo == 0:
        fits = Duration._MIN_NANOSECONDS <= total <= Duration._MAX_NANOSECONDS
        try:
            d = p.to_duration()
        except (ValueError, OverflowError):
            return not fits
        return fits and d.to_nanoseconds() == total
    try:
        p.to_duration()
    except RuntimeError:
        return True
    return False


# ---------------------------------------------------------------------------------------------------------------- generic plus-days
class _PYD:                      # probe: (year, day-of-year) handed to the calendar's doy -> date conversion (C01.split)
    def __init__(self, year, doy):
        self.year, self.doy = year, doy

    def _with_calendar_ordinal(self, o):
        return self


class _ACalc:
    """Abstract calculator: arbitrary year lengths around the date's year, arbitrary month length and day-of-year of the date."""
    _min_year, _max_year = 1, 9999

    def __init__(self, year, month, dim, doy, lp, lc, ln):
        self.year, self.month, self.dim, self.doy, self.lp, self.lc, self.ln = year, month, dim, doy, lp, lc, ln

    def _get_days_in_month(self, y, m):
        if y == self.year and m == self.month:
            return self.dim
        raise AssertionError("abstract calendar: unexpected month query")

    def _get_day_of_year(self, ymd):
        return self.doy

    def _get_days_in_year(self, y):
        if y == self.year:
            return self.lc
        if y == self.year - 1:
            return self.lp
        if y == self.year + 1:
            return self.ln
        raise AssertionError("abstract calendar: unexpected year query")

    def _get_year_month_day(self, *, year=None, day_of_year=None, days_since_epoch=None):
        return _PYD(year, day_of_year)


class _ACal:
    def __init__(self, calc, ordinal):
        self._year_month_day_calculator, self._ordinal = calc, ordinal

    def _get_year_month_day_calendar_from_days_since_epoch(self, d):
        return _ProbeYMD(d)


class _ADate:
    def __init__(self, cal, year, month, day, base):
        self.calendar, self.year, self.month, self.day, self._days_since_epoch = cal, year, month, day, base
        self._year_month_day = ymdrecord.YMD(year, month, day)


def _measure_min_year_length():
    worst = None
    for cid in CalendarSystem.ids:
        cal = CalendarSystem.for_id(cid)
        c = cal._year_month_day_calculator
        for y in range(cal.min_year, cal.max_year + 1):
            L = c._get_days_in_year(y)
            if worst is None or L < worst[0]:
                worst = (L, cid, y)
    return worst


_MIN = []


def min_year_length():
    """Shortest year of any real calendar, measured from the real code on every run (the abstract calendar assumes exactly this)."""
    if not _MIN:
        _MIN.append(_measure_min_year_length())
    return _MIN[0]



@lemma({"year": int, "month": int, "day": int, "dim": int, "doy": int, "lp": int, "lc": int, "ln": int, "n": int, "base": int, "weeks": bool},
       params=["abstract-calendar"], budget=200, per_path=30,
       bounds="_FixedLengthDatePeriodField.add (days and weeks) over an ABSTRACT calendar: any year in [2, 9998], any month length >= the "
              "day, any day-of-year consistent with it, any three adjacent year lengths >= the shortest real calendar year (measured each run: 353), any amount |n| <= 10**7: fast path returns "
              "the expected (year, day-of-year) / same-month day, slow path hands days + n to the day -> date conversion; range ends raise")
def plusdays_generic(P):
    ymdrecord.install()
    from pyoda_time._calendar_ordinal import _CalendarOrdinal
    from pyoda_time.fields._date_period_fields import _DatePeriodFields

    MIN_YEAR_LENGTH = min_year_length()[0]

    def h(year, month, day, dim, doy, lp, lc, ln, n, base, weeks):
        assume(2 <= year <= 9998)
        assume(1 <= month <= 32)
        assume(1 <= day <= dim <= 64)
        for L in (lp, lc, ln):
            assume(MIN_YEAR_LENGTH <= L <= 400)
        assume(day <= doy <= lc)
        assume(dim - day <= lc - doy)          # the rest of the month fits in the rest of the year
        assume(-10 ** 9 <= base <= 10 ** 9)
        assume(-10 ** 7 <= n <= 10 ** 7)
        calc = _ACalc(year, month, dim, doy, lp, lc, ln)
        cal = _ACal(calc, _CalendarOrdinal.ISO)
        d0 = _ADate(cal, year, month, day, base)
        field = _DatePeriodFields._weeks_field if weeks else _DatePeriodFields._days_field
        amount = 7 * n if weeks else n
        r = field.add(d0, n)
        if n == 0:
            return r is d0
        got = r._LocalDate__year_month_day_calendar
        # which internal path is taken is the implementation's business: each representation must denote the day base + amount
        if isinstance(got, _ProbeYMD):
            return got.days == base + amount
        if isinstance(got, ymdrecord.YMDC):
            return got._year == year and got._month == month and got._day == day + amount and 1 <= got._day <= dim
        if not isinstance(got, _PYD):
            return False
        t = doy + amount
        ey = year
        if t < 1:
            ey, t = year - 1, t + lp
        elif t > lc:
            ey, t = year + 1, t - lc
        return got.year == ey and got.doy == t and 1 <= t <= (lp if ey < year else ln if ey > year else lc)
    return h


@lemma(premise=True, params=["all-calendars"], budget=120)
def premise_min_year_length(P):
    """Finite data premise of plusdays_generic: the shortest year of any calendar (concrete enumeration of all years of all calendars)
    is what the abstract calendar assumes, and it is at least the 300-day fast-path threshold documented in the code."""
    worst = min_year_length()
    return worst[0] >= 300, f"shortest year: {worst[0]} days ({worst[1]} {worst[2]})"


# ---------------------------------------------------------------------------------------------------------------- Hebrew: changing the year
def _heb_leap(y):
    p = y % 19
    r = False
    for q in (0, 3, 6, 8, 11, 14, 17):
        r = r or p == q
    return r


@lemma({"y1": int, "y2": int, "sm": int, "d": int, "L2": int}, params=[[c, m] for c in ("Hebrew Civil", "Hebrew Scriptural") for m in range(1, 14)],
       budget=200, per_path=40,
       bounds="the Hebrew calculators' _set_year (what plus_years and the year part of Period arithmetic use) for EVERY source year, target "
              "year, source month and day 1..30, the target year's Heshvan/Kislev lengths abstract (any legal year length): the documented rule - "
              "the month is kept, Adar II of a leap year goes to Adar in a common year, Adar of a COMMON year goes to Adar II in a leap year "
              "(Adar I of a leap year stays Adar I), and day 30 of a month that has only 29 days in the target year rolls to the 1st of the next month")
def hebrew_set_year(PM):
    P, month = PM
    from pyoda_time import CalendarSystem
    from pyoda_time.calendars._hebrew_scriptural_calculator import _HebrewScripturalCalculator as HS
    from props import ymdrecord
    ymdrecord.install()
    calc = CalendarSystem.for_id(P)._year_month_day_calculator
    civil = P.endswith("Civil")
    order = (7, 8, 9, 10, 11, 12, 13, 1, 2, 3, 4, 5, 6)

    def to_cal(sm, leap):
        if not civil:
            return sm
        months = [m for m in order if m != 13 or leap]
        return months.index(sm) + 1

    def h(y1, y2, sm, d, L2):
        assume(1 <= y1 <= 9998)
        assume(1 <= y2 <= 9998)
        leap1, leap2 = bool(_heb_leap(y1)), bool(_heb_leap(y2))
        assume(sm == month)                 # one instance per source month (scriptural numbering)
        assume(1 <= sm <= (13 if leap1 else 12))
        sm = month
        assume(1 <= d <= 30)
        legal = (383, 384, 385) if leap2 else (353, 354, 355)
        assume(L2 == legal[0] or L2 == legal[1] or L2 == legal[2])
        entry = 4 * 1000 + (1 if L2 % 10 == 5 else 0) + (2 if L2 % 10 == 3 else 0)

        def cache(cls, year):
            if year == y2:
                return entry
            raise AssertionError("abstract year cache asked for an unexpected year")
        saved = HS._HebrewScripturalCalculator__get_or_populate_cache
        HS._HebrewScripturalCalculator__get_or_populate_cache = classmethod(cache)
        try:
            r = calc._set_year(ymdrecord.YMD(y1, to_cal(sm, leap1), d), y2)
        finally:
            HS._HebrewScripturalCalculator__get_or_populate_cache = saved
        tm = sm
        if sm == 13 and not leap2:
            tm = 12
        elif sm == 12 and leap2 and not leap1:
            tm = 13
        td = d
        if d == 30:
            short = (tm == 8 and L2 % 10 != 5) or (tm == 9 and L2 % 10 == 3) or (tm == 12 and not leap2)
            if short:
                td, tm = 1, (1 if tm == 12 else tm + 1)
        return r._year == y2 and r._month == to_cal(tm, leap2) and r._day == td
    return h
