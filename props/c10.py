"""C10 — time-of-day and local date-time arithmetic is exact and carries correctly."""
from symx import stubs
from symx.driver import assume
from symx.lemma import lemma

stubs.standard()

from props import ymdrecord  # noqa: E402
from pyoda_time import LocalDateTime, LocalTime, Offset, OffsetTime, Period, PyodaConstants  # noqa: E402
from pyoda_time.fields._time_period_field import _TimePeriodField  # noqa: E402

NPD = PyodaConstants.NANOSECONDS_PER_DAY
UNITS = {"hours": 3600 * 10 ** 9, "minutes": 60 * 10 ** 9, "seconds": 10 ** 9, "milliseconds": 10 ** 6, "microseconds": 10 ** 3,
         "ticks": 100, "nanoseconds": 1}
BIG = 10 ** 24   # |value * unit| bound (the truncating-division model is valid below 10**26); far beyond 64 bits


def T(n):
    assume(0 <= n < NPD)
    return LocalTime._ctor(nanoseconds=n)


ACCESSORS = {
    "hour": lambda t, n: t.hour == n // (3600 * 10 ** 9),
    "minute": lambda t, n: t.minute == (n // (60 * 10 ** 9)) % 60,
    "second": lambda t, n: t.second == (n // 10 ** 9) % 60,
    "millisecond": lambda t, n: t.millisecond == (n // 10 ** 6) % 1000,
    "microsecond": lambda t, n: t.microsecond == (n // 10 ** 3) % 10 ** 6,
    "tick_of_second": lambda t, n: t.tick_of_second == (n // 100) % 10 ** 7,
    "tick_of_day": lambda t, n: t.tick_of_day == n // 100,
    "nanosecond_of_second": lambda t, n: t.nanosecond_of_second == n % 10 ** 9,
    "nanosecond_of_day": lambda t, n: t.nanosecond_of_day == n,
    "clock_hour_of_half_day": lambda t, n: t.clock_hour_of_half_day == ((n // (3600 * 10 ** 9)) % 12 or 12),
}


@lemma({"n": int}, params=list(ACCESSORS), budget=60, bounds="every nanosecond-of-day in [0, 24h); one accessor per instance")
def localtime_accessor(P):
    chk = ACCESSORS[P]

    def h(n):
        return chk(T(n), n)
    return h


OT_ACCESSORS = ["hour", "minute", "second", "millisecond", "tick_of_second", "tick_of_day", "nanosecond_of_second",
                "nanosecond_of_day", "clock_hour_of_half_day"]


@lemma({"n": int, "o": int}, params=OT_ACCESSORS, budget=60,
       bounds="every (nanosecond-of-day, offset in +-18h): OffsetTime's packed representation returns the same accessor values as LocalTime, and the offset")
def offsettime_accessor(P):
    chk = ACCESSORS[P]

    def h(n, o):
        assume(-64800 <= o <= 64800)
        t = T(n)
        ot = OffsetTime(t, Offset.from_seconds(o))
        return chk(ot, n) and ot.offset.seconds == o and ot.time_of_day.nanosecond_of_day == n
    return h


@lemma({"n": int, "v": int}, params=list(UNITS), budget=60,
       bounds="every time of day x every signed amount v with |v * unit| <= 10**24 ns: _add_local_time wraps modulo 24h; "
              "_add_local_time_with_extra_days also returns floor((n + v*unit) / 24h); public plus_<unit> agrees; operand unchanged")
def addtime(P):
    unit = UNITS[P]
    field = getattr(_TimePeriodField, "_" + P)

    def h(n, v):
        t = T(n)
        assume(-BIG <= v * unit <= BIG)
        tot = n + v * unit
        r = field._add_local_time(t, v)
        r2, extra = field._add_local_time_with_extra_days(t, v)
        pub = getattr(t, "plus_" + P)(v)
        return (r.nanosecond_of_day == tot % NPD and r2.nanosecond_of_day == tot % NPD and extra == tot // NPD
                and pub.nanosecond_of_day == tot % NPD and t.nanosecond_of_day == n)
    return h


@lemma({"hh": int, "mi": int, "s": int, "ms": int}, budget=60, bounds="LocalTime(h, m, s, ms) with each argument in [-2, 1001]: accepted iff all in range")
def ctor_range(hh, mi, s, ms):
    for v in (hh, mi, s, ms):
        assume(-2 <= v <= 1001)
    valid = 0 <= hh <= 23 and 0 <= mi <= 59 and 0 <= s <= 59 and 0 <= ms <= 999
    try:
        t = LocalTime(hh, mi, s, ms)
    except ValueError:
        return not valid
    return valid and t.nanosecond_of_day == ((hh * 60 + mi) * 60 + s) * 10 ** 9 + ms * 10 ** 6


FACTORIES = {"nanoseconds": 1, "ticks": 100, "milliseconds": 10 ** 6, "seconds": 10 ** 9, "minutes": 60 * 10 ** 9, "hours": 3600 * 10 ** 9}


@lemma({"v": int}, params=list(FACTORIES), budget=60, bounds="from_<unit>_since_midnight(v) for every int |v| <= 10**18: accepted iff 0 <= v*unit < 24h")
def factory_range(P):
    unit = FACTORIES[P]
    f = getattr(LocalTime, f"from_{P}_since_midnight")

    def h(v):
        assume(-10 ** 18 <= v <= 10 ** 18)
        valid = 0 <= v * unit < NPD
        try:
            t = f(v)
        except ValueError:
            return not valid
        return valid and t.nanosecond_of_day == v * unit
    return h


@lemma({"hh": int, "mi": int, "s": int, "x": int}, params=["nanosecond", "tick"], budget=60,
       bounds="from_hour_minute_second_<nanosecond|tick>: arguments in a box 2 beyond each range; accepted iff all in range")
def factory_hms(P):
    f = LocalTime.from_hour_minute_second_nanosecond if P == "nanosecond" else LocalTime.from_hour_minute_second_tick
    top, unit = (10 ** 9, 1) if P == "nanosecond" else (10 ** 7, 100)

    def h(hh, mi, s, x):
        assume(-2 <= hh <= 25)
        assume(-2 <= mi <= 61)
        assume(-2 <= s <= 61)
        assume(-2 <= x <= top + 1)
        valid = 0 <= hh <= 23 and 0 <= mi <= 59 and 0 <= s <= 59 and 0 <= x < top
        try:
            t = f(hh, mi, s, x)
        except ValueError:
            return not valid
        return valid and t.nanosecond_of_day == ((hh * 60 + mi) * 60 + s) * 10 ** 9 + x * unit
    return h


# ---------------------------------------------------------------------------------------------- LocalDateTime on a day-number calendar
class _DayDate:
    """Abstract LocalDate: a day number.  Contract (= C09.plusdays + C01.order on the real calendars): plus_days(k) moves by k days."""

    def __init__(self, days):
        self.days = days

    def plus_days(self, k):
        return _DayDate(self.days + k)


@lemma({"d": int, "n": int, "v": int}, params=list(UNITS), budget=60,
       bounds="LocalDateTime.plus_<unit> over an abstract date (a day number with plus_days = +k, contract C09): every day number, "
              "time of day and amount |v*unit| <= 10**24: result = local timeline + v*unit with whole days carried into the date")
def adddatetime(P):
    unit = UNITS[P]
    field = getattr(_TimePeriodField, "_" + P)

    def h(d, n, v):
        assume(-10 ** 7 <= d <= 10 ** 7)
        t = T(n)
        assume(-BIG <= v * unit <= BIG)
        start = LocalDateTime._ctor(local_date=_DayDate(d), local_time=t)
        r = field._add_local_date_time(start, v)
        tot = d * NPD + n + v * unit
        return r.date.days == tot // NPD and r.time_of_day.nanosecond_of_day == tot % NPD and start.date.days == d
    return h


PERIOD_UNITS = {"hours": 3600 * 10 ** 9, "minutes": 60 * 10 ** 9, "seconds": 10 ** 9, "milliseconds": 10 ** 6, "ticks": 100, "nanoseconds": 1}


@lemma({"n": int, "v": int}, params=list(PERIOD_UNITS), budget=60,
       bounds="LocalTime +/- Period.from_<unit>(v) for every time of day and |v*unit| <= 10**24: wraps modulo 24h (fields are applied one "
              "after another by LocalTime.__add__, so multi-field periods are compositions of this step)")
def localtime_plus_period(P):
    unit = PERIOD_UNITS[P]
    mk = getattr(Period, "from_" + P)

    def h(n, v):
        t = T(n)
        assume(-BIG <= v * unit <= BIG)
        p = mk(v)
        return (t + p).nanosecond_of_day == (n + v * unit) % NPD and (t - p).nanosecond_of_day == (n - v * unit) % NPD and t.nanosecond_of_day == n
    return h


@lemma({"n": int, "hh": int, "ns": int}, budget=90, per_path=30,
       bounds="LocalTime + Period(hours, nanoseconds) with |hours| <= 10**6, |nanoseconds| <= 10**15: two fields compose; a date component raises")
def localtime_plus_period2(n, hh, ns):
    t = T(n)
    assume(-10 ** 6 <= hh <= 10 ** 6)
    assume(-10 ** 15 <= ns <= 10 ** 15)
    p = Period._ctor(hours=hh, nanoseconds=ns)
    ok = (t + p).nanosecond_of_day == (n + hh * 3600 * 10 ** 9 + ns) % NPD
    try:
        t + Period.from_days(1)
    except (ValueError, TypeError):
        return ok
    return False


@lemma({"a": int, "b": int}, budget=60, bounds="every pair of times of day: ordering operators, compare_to, min/max, equality")
def localtime_order(a, b):
    x, y = T(a), T(b)
    c = x.compare_to(y)
    ok = (x == y) == (a == b) and (x != y) == (a != b) and (x < y) == (a < b) and (x <= y) == (a <= b) and (x > y) == (a > b) and (x >= y) == (a >= b)
    return ok and (c < 0) == (a < b) and (c > 0) == (a > b) and LocalTime.max(x, y).nanosecond_of_day == max(a, b) and \
        LocalTime.min(x, y).nanosecond_of_day == min(a, b)


BASE_DATES = [(2023, 1, 30), (2023, 1, 31), (2023, 2, 28), (2024, 2, 29), (2023, 3, 31), (2023, 12, 31)]


@lemma({"n": int, "hh": int, "ns": int, "mo": int, "yy": int, "dd": int}, params=[[i, sg] for i in range(len(BASE_DATES)) for sg in ("+", "-")],
       budget=500, per_path=60,
       bounds="LocalDateTime.plus(period) / minus for a period with years in -1..1, months in -2..2, days in -2..2 AND time units (hours in "
              "+-30, nanoseconds in +-1 day) from any time of day on six ISO dates at month ends (where month arithmetic clamps): the date "
              "units are applied first, most significant first, and the days carried by the time units last; the time of day is exact")
def ldt_plus_period_order(P):
    from props import calsetup as cs
    from props import ymdrecord
    from pyoda_time import LocalDate, LocalDateTime, Period
    from props.daycal import install_iso_plus_days_contract
    cs.prepare("ISO")
    ymdrecord.install()
    install_iso_plus_days_contract()          # plus_days = day number + n (C09); years and months keep running for real
    y, m, d = BASE_DATES[P[0]]
    neg = P[1] == "-"

    def h(n, hh, ns, mo, yy, dd):
        assume(0 <= n < NPD)
        assume(-30 <= hh <= 30)
        assume(-NPD <= ns <= NPD)
        assume(-2 <= mo <= 2)
        assume(-1 <= yy <= 1)
        assume(-2 <= dd <= 2)
        mo, yy = int(mo), int(yy)                         # fork over the (few) month / year amounts
        base = LocalDate(y, m, d)
        ldt = LocalDateTime._ctor(local_date=base, local_time=T(n))
        period = Period.from_years(yy) + Period.from_months(mo) + Period.from_days(dd) + Period.from_hours(hh) + Period.from_nanoseconds(ns)
        r = ldt.minus(period) if neg else ldt.plus(period)
        sgn = -1 if neg else 1
        total = n + sgn * (hh * 3600 * 10 ** 9 + ns)
        carry = total // NPD
        want_date = base.plus_years(sgn * yy).plus_months(sgn * mo).plus_days(sgn * dd + carry)
        return r.nanosecond_of_day == total % NPD and r.date._days_since_epoch == want_date._days_since_epoch
    return h
