"""C11 — offset and zoned date-times keep instant, local time, offset and calendar in step."""
from symx import stubs
from symx.driver import assume
from symx.lemma import lemma

stubs.standard()

from props import daycal  # noqa: E402
from pyoda_time import (CalendarSystem, Duration, Instant, LocalDateTime, LocalTime, Offset, OffsetDate, OffsetDateTime,  # noqa: E402
                        OffsetTime, PyodaConstants)

NPD = PyodaConstants.NANOSECONDS_PER_DAY
NS = 10 ** 9
HOST = daycal.host("Coptic")
HOST2 = daycal.host("Julian")
daycal.install_plus_days_contract()
LO = max(Instant._MIN_DAYS, HOST._min_days, HOST2._min_days) + 8
HI = min(Instant._MAX_DAYS, HOST._max_days, HOST2._max_days) - 8


def inst(d, n):
    assume(LO <= d <= HI)
    assume(0 <= n < NPD)
    return Instant._ctor(days=d, nano_of_day=n)


def off(o):
    assume(-64800 <= o <= 64800)
    return Offset.from_seconds(o)


def itot(i):
    t = i._time_since_epoch
    return t._floor_days * NPD + t._nanosecond_of_floor_day


def local_total(x):
    return daycal.days_of(x.date) * NPD + x.nanosecond_of_day


@lemma({"d": int, "n": int, "o": int}, budget=60,
       bounds="every instant (8 days inside the range) x every offset in +-18h, calendar = DayCalendar: local = instant + offset, "
              "0 <= nanosecond-of-day < 24h, to_instant is the inverse, offset/calendar stored")
def odt_ctor(d, n, o):
    t = inst(d, n)
    x = OffsetDateTime._ctor(instant=t, offset=off(o), calendar=HOST)
    tot = d * NPD + n
    return (local_total(x) == tot + o * NS and 0 <= x.nanosecond_of_day < NPD and x.to_instant() == t and itot(x.to_instant()) == tot
            and x.offset.seconds == o and x.calendar is HOST)


def _odt_local(dd, nn, o):
    assume(LO <= dd <= HI)
    assume(0 <= nn < NPD)
    return OffsetDateTime(LocalDateTime._ctor(local_date=daycal.date(HOST, dd), local_time=LocalTime._ctor(nanoseconds=nn)), off(o))


@lemma({"dd": int, "nn": int, "o1": int, "o2": int}, budget=90,
       bounds="every local date-time x every pair of offsets in +-18h (changes up to 36h: two day carries in either direction): with_offset "
              "moves the local time by exactly the offset difference, 0 <= nanosecond-of-day < 24h, keeps the calendar, stores the new offset")
def odt_with_offset_local(dd, nn, o1, o2):
    x = _odt_local(dd, nn, o1)
    y = x.with_offset(off(o2))
    return (local_total(y) == dd * NPD + nn + (o2 - o1) * NS and 0 <= y.nanosecond_of_day < NPD and y.offset.seconds == o2
            and y.calendar is HOST and local_total(x) == dd * NPD + nn and x.offset.seconds == o1)


@lemma({"dd": int, "nn": int, "o": int}, budget=90,
       bounds="every local date-time x offset: to_instant = local - offset (normalised), and Instant.with_offset gives the value back")
def odt_to_instant(dd, nn, o):
    x = _odt_local(dd, nn, o)
    t = x.to_instant()
    d = t._time_since_epoch
    back = t.with_offset(off(o), HOST)
    return (itot(t) == dd * NPD + nn - o * NS and 0 <= d._nanosecond_of_floor_day < NPD
            and daycal.days_of(back.date) == dd and back.nanosecond_of_day == nn)


@lemma({"d": int, "n": int, "o": int}, budget=60, bounds="every instant x offset: with_calendar keeps instant, offset and local time; the date moves to the new calendar")
def odt_with_calendar(d, n, o):
    t = inst(d, n)
    x = OffsetDateTime._ctor(instant=t, offset=off(o), calendar=HOST)
    y = x.with_calendar(HOST2)
    return (y.to_instant() == t and y.offset.seconds == o and y.calendar is HOST2 and y.nanosecond_of_day == x.nanosecond_of_day
            and daycal.days_of(y.date) == daycal.days_of(x.date) and x.calendar is HOST)


SPELLINGS = {
    "+": lambda x, dur: (x + dur, 1), "-": lambda x, dur: (x - dur, -1), "plus": lambda x, dur: (x.plus(dur), 1),
    "minus": lambda x, dur: (x.minus(dur), -1), "add": lambda x, dur: (OffsetDateTime.add(x, dur), 1),
    "subtract": lambda x, dur: (OffsetDateTime.subtract(x, dur), -1),
}


@lemma({"d": int, "n": int, "o": int, "dd": int, "dn": int}, params=list(SPELLINGS), budget=120, per_path=30,
       bounds="every instant x offset x every Duration within +-3 days: +/- Duration moves the instant by exactly that duration and keeps "
              "offset and calendar (one operator/method spelling per instance)")
def odt_plus_minus_duration(P):
    op = SPELLINGS[P]

    def h(d, n, o, dd, dn):
        t = inst(d, n)
        assume(-3 <= dd <= 3)
        assume(0 <= dn < NPD)
        dur = Duration._ctor(days=dd, nano_of_day=dn)
        x = OffsetDateTime._ctor(instant=t, offset=off(o), calendar=HOST)
        tot = d * NPD + n
        r, sign = op(x, dur)
        want = tot + sign * (dd * NPD + dn)
        return (itot(r.to_instant()) == want and r.offset.seconds == o and r.calendar is HOST and local_total(r) == want + o * NS
                and itot(x.to_instant()) == tot)
    return h


@lemma({"dd": int, "nn": int, "o": int, "v": int}, params=["hours", "minutes", "seconds", "milliseconds", "ticks", "nanoseconds"], budget=120,
       per_path=30,
       bounds="every OffsetDateTime x plus_<unit>(v), |v * unit| <= 10**22 ns: the result equals (instant, local value, offset, calendar) the "
              "value of x + Duration.from_<unit>(v), and raises exactly when that does (the addition is odt_plus_minus_duration, the duration "
              "factories are C03)")
def odt_plus_unit(P):
    unit = {"hours": 3600 * NS, "minutes": 60 * NS, "seconds": NS, "milliseconds": 10 ** 6, "ticks": 100, "nanoseconds": 1}[P]
    seen = []
    real_add = OffsetDateTime.__add__

    def recording_add(self, dur):
        r = real_add(self, dur)
        seen.append((self, dur, r))
        return r
    OffsetDateTime.__add__ = recording_add
    stubs.STUBS_IN_FORCE.append("probe:OffsetDateTime.__add__ records operands and result, then runs the real addition (this lemma only; a "
                                "shortcut for the comparison, not a requirement on how plus_<unit> is implemented)")

    def h(dd, nn, o, v):
        del seen[:]
        x = _odt_local(dd, nn, o)
        assume(-10 ** 22 <= v * unit <= 10 ** 22)
        try:
            r = getattr(x, "plus_" + P)(v)
        except (ValueError, OverflowError):
            r = None
        if len(seen) == 1 and seen[0][0] is x and r is seen[0][2]:
            # implemented as x + <duration>: enough that the duration is v * unit (the addition is odt_plus_minus_duration)
            return seen[0][1].to_nanoseconds() == v * unit
        # any other implementation: compare with the value of x + Duration.from_<unit>(v)
        try:
            want = real_add(x, getattr(Duration, "from_" + P)(v))
        except (ValueError, OverflowError):
            return r is None
        return (r is not None and itot(r.to_instant()) == itot(want.to_instant()) and r.offset.seconds == o and r.calendar is HOST
                and local_total(r) == local_total(want))
    return h


@lemma({"d1": int, "n1": int, "o1": int, "d2": int, "n2": int, "o2": int}, budget=120, per_path=30,
       bounds="every pair of OffsetDateTimes (any offsets, two different calendars): a - b is the elapsed duration between their instants")
def odt_minus_odt(d1, n1, o1, d2, n2, o2):
    a = OffsetDateTime._ctor(instant=inst(d1, n1), offset=off(o1), calendar=HOST)
    b = OffsetDateTime._ctor(instant=inst(d2, n2), offset=off(o2), calendar=HOST2)
    want = (d1 * NPD + n1) - (d2 * NPD + n2)
    r1, r2, r3 = a - b, a.minus(b), OffsetDateTime.subtract(a, b)
    return r1.to_nanoseconds() == want and r2.to_nanoseconds() == want and r3.to_nanoseconds() == want


@lemma({"d": int, "n": int, "o": int, "dd": int, "nn": int}, budget=120, per_path=30,
       bounds="every OffsetDateTime: changing only the date (adjuster to any other day) keeps time and offset; changing only the time keeps date and offset")
def odt_adjusters(d, n, o, dd, nn):
    t = inst(d, n)
    x = OffsetDateTime._ctor(instant=t, offset=off(o), calendar=HOST)
    assume(LO <= dd <= HI)
    assume(0 <= nn < NPD)
    y = x.with_date_adjuster(lambda _date: daycal.date(HOST, dd))
    z = x.with_time_adjuster(lambda _time: LocalTime._ctor(nanoseconds=nn))
    ok = daycal.days_of(y.date) == dd and y.nanosecond_of_day == x.nanosecond_of_day and y.offset.seconds == o and y.calendar is HOST
    ok = ok and daycal.days_of(z.date) == daycal.days_of(x.date) and z.nanosecond_of_day == nn and z.offset.seconds == o
    return ok


@lemma({"dd": int, "nn": int, "o": int, "o2": int}, budget=120, per_path=30,
       bounds="every (date, time, offset): OffsetDate.at / OffsetTime.on / to_offset_date / to_offset_time recombine to the same value; "
              "OffsetDate/OffsetTime.with_offset keep the local part")
def odt_recombine(dd, nn, o, o2):
    assume(LO <= dd <= HI)
    assume(0 <= nn < NPD)
    date, time, offset = daycal.date(HOST, dd), LocalTime._ctor(nanoseconds=nn), off(o)
    x = OffsetDateTime(LocalDateTime._ctor(local_date=date, local_time=time), offset)
    od, ot = x.to_offset_date(), x.to_offset_time()
    a, b = od.at(time), ot.on(date)
    ok = daycal.days_of(od.date) == dd and od.offset.seconds == o and ot.nanosecond_of_day == nn and ot.offset.seconds == o
    ok = ok and a == x and b == x and a.to_instant() == x.to_instant() and local_total(x) == dd * NPD + nn
    ok = ok and itot(x.to_instant()) == dd * NPD + nn - o * NS
    od2, ot2 = od.with_offset(off(o2)), ot.with_offset(off(o2))
    return ok and daycal.days_of(od2.date) == dd and od2.offset.seconds == o2 and ot2.nanosecond_of_day == nn and ot2.offset.seconds == o2


@lemma({"d": int, "n": int, "o": int}, budget=60, bounds="Instant.with_offset(offset, calendar) for every instant/offset: same instant, that offset, that calendar")
def instant_with_offset(d, n, o):
    t = inst(d, n)
    x = t.with_offset(off(o), HOST)
    return x.to_instant() == t and x.offset.seconds == o and x.calendar is HOST and local_total(x) == d * NPD + n + o * NS


@lemma({"d": int, "n": int, "o": int, "dn": int}, params=["Gregorian", "Hijri Civil-Base15"], budget=400, per_path=60, tiers=("thorough",),
       bounds="REAL calendar (full range, 4 days inside; not Coptic/Julian, which are this module's DayCalendar hosts): OffsetDateTime +/- Duration(|.| <= 1 day) retains the calendar and the offset")
def odt_calendar_retained_real(P):
    from props import calsetup as cs
    from props import ymdrecord
    cal, calc, lo, hi = cs.prepare(P)
    ymdrecord.install()

    def h(d, n, o, dn):
        assume(max(cal._min_days, Instant._MIN_DAYS) + 4 <= d <= min(cal._max_days, Instant._MAX_DAYS) - 4)
        assume(0 <= n < NPD)
        assume(-NPD <= dn <= NPD)
        x = OffsetDateTime._ctor(instant=Instant._ctor(days=d, nano_of_day=n), offset=off(o), calendar=cal)
        dur = Duration.from_nanoseconds(dn)
        a, b = x + dur, x - dur
        return a.calendar is cal and b.calendar is cal and a.offset.seconds == o and b.offset.seconds == o and x.calendar is cal
    return h


@lemma({"d": int, "n": int, "o": int, "d1": int, "n1": int, "o0": int, "o1": int}, params=["before", "after", "after@3600", "after@-16200", "after@64800"], budget=240, per_path=60,
       bounds="every OffsetDateTime (DayCalendar, any offset) converted with in_zone into every zone of 2 intervals (any transition, any "
              "offsets): same instant, the zone's wall offset at that instant, local time = instant + that offset, the zone, and the "
              "SAME calendar as the source (partition: instant before / after the zone's transition; the instant read back through "
              "to_instant is asserted before the transition for every offset and after it for the later offset in {+1h, -4h30, +18h})")
def odt_in_zone(P):
    from props import symzone
    side, _, fixed = P.partition("@")

    def h(d, n, o, d1, n1, o0, o1):
        if fixed:
            assume(o1 == int(fixed))
            o1 = int(fixed)
        zone, T = symzone.make([(d1, n1)], [o0, o1])
        assume(symzone.LO + 8 <= d <= symzone.HI - 8)
        t = inst(d, n)
        tot = d * NPD + n
        assume((tot < T[0]) == (side == "before"))
        x = OffsetDateTime._ctor(instant=t, offset=off(o), calendar=HOST)
        z = x.in_zone(zone)
        zo = o0 if side == "before" else o1
        local = tot + zo * NS
        ok = (z.zone is zone and z.calendar is HOST and z.offset.seconds == zo
              and daycal.days_of(z.date) == local // NPD and z.time_of_day.nanosecond_of_day == local % NPD)
        # the instant read back through to_instant (local - offset: odt_to_instant's subject): with a symbolic later offset that one
        # extra query is solver-unknown (as in zdt_plus_duration), so the "after" side asserts it for the concrete later offsets only
        return ok and ((side == "after" and not fixed) or itot(z.to_instant()) == tot)
    return h


FIXED_OFFSETS = [0, 3600, -16200, 1234, -64800]


@lemma({"d": int, "n": int}, params=FIXED_OFFSETS, budget=120, per_path=60,
       bounds="every instant, offsets {0, +1h, -4h30, +1234 s, -18h} (cached and uncached fixed zones), DayCalendar: in_fixed_zone keeps "
              "local date/time, instant, offset and calendar, and its zone is the fixed zone of that offset; to_offset_date_time of "
              "the result gives the source back")
def odt_in_fixed_zone(o):
    def h(d, n):
        t = inst(d, n)
        x = OffsetDateTime._ctor(instant=t, offset=Offset.from_seconds(o), calendar=HOST)
        z = x.in_fixed_zone()
        tot = d * NPD + n
        local = tot + o * NS
        back = z.to_offset_date_time()
        return (z.calendar is HOST and z.offset.seconds == o and itot(z.to_instant()) == tot and z.zone.get_utc_offset(t).seconds == o
                and daycal.days_of(z.date) == local // NPD and z.time_of_day.nanosecond_of_day == local % NPD
                and back.calendar is HOST and back.offset.seconds == o and local_total(back) == local)
    return h


REAL_PAIRS = [[1600, 1, 1, 1600, 1, 1], [2024, 3, 5, 2024, 3, 5], [2400, 12, 29, 2400, 12, 29], [1900, 2, 28, 1900, 2, 28],
              [2024, 3, 5, 1445, 8, 24], [1, 1, 1, 1, 1, 1]]


@lemma({"n1": int, "o1": int, "n2": int, "o2": int}, params=REAL_PAIRS, budget=120, per_path=60,
       bounds="REAL calendars: a = an ISO date, b = a Hijri Civil-Base15 date (6 concrete pairs; in 5 of them b has the SAME year/month/"
              "day numbers as a, although the days are centuries apart), every time of day and every offset on both sides: a - b, "
              "a.minus(b), OffsetDateTime.subtract(a, b) are the difference of the two instants (day numbers from the calendars' own "
              "date->day code, which C01/C02 decide; symbolic dates in two real calendars at once are solver-unknown)")
def odt_minus_odt_real(P):
    from pyoda_time import LocalDate
    y, m, d, y2, m2, d2 = P
    da, db = LocalDate(y, m, d, CalendarSystem.iso), LocalDate(y2, m2, d2, CalendarSystem.for_id("Hijri Civil-Base15"))
    dda, ddb = da._days_since_epoch, db._days_since_epoch

    def h(n1, o1, n2, o2):
        assume(0 <= n1 < NPD)
        assume(0 <= n2 < NPD)
        a = OffsetDateTime(LocalDateTime._ctor(local_date=da, local_time=LocalTime._ctor(nanoseconds=n1)), off(o1))
        b = OffsetDateTime(LocalDateTime._ctor(local_date=db, local_time=LocalTime._ctor(nanoseconds=n2)), off(o2))
        want = (dda * NPD + n1 - o1 * NS) - (ddb * NPD + n2 - o2 * NS)
        r1, r2, r3 = a - b, a.minus(b), OffsetDateTime.subtract(a, b)
        return r1.to_nanoseconds() == want and r2.to_nanoseconds() == want and r3.to_nanoseconds() == want
    return h


# ZonedDateTime + Duration over a symbolic zone: shared with C05 (props/zdt.py)
from props import zdt  # noqa: E402

zdt.declare()
