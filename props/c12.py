"""C12 — value types: equality, hashing, ordering, immutability.
(Duration/Instant/Offset ordering is also C03's subject and is declared here too: elapsed_order; LocalTime comparisons are C10's;
_YearMonthDay ordering and packing are lemmas of C01.)"""
from symx import stubs
from symx.driver import assume
from symx.lemma import lemma

stubs.standard()

from props import calsetup as cs  # noqa: E402
from props import ymdrecord  # noqa: E402
from pyoda_time import (AnnualDate, CalendarSystem, Duration, Instant, LocalDate, LocalDateTime, LocalTime, Offset, OffsetDate,  # noqa: E402
                        OffsetDateTime, OffsetTime, Period, PyodaConstants, YearMonth)

NPD = PyodaConstants.NANOSECONDS_PER_DAY


def _order_params(tier, seed):
    base = _order_cals(tier, seed)
    return [[p, mode] for p in base for mode in ("same-year", "next-year")]


def _order_cals(tier, seed):
    out = [cs.P(c) for c in ("Julian", "Coptic")] + [cs.P("ISO", 2101, 2500)] + ([cs.P("ISO", -9998, 1899), cs.P("ISO", 1900, 2100)] if tier == "thorough" else [])
    for c in (["Hebrew Civil", "Hebrew Scriptural"] if tier == "thorough" else []) + ["Badi"] + cs.PERSIAN[:1] + cs.pick(cs.ISLAMIC, seed, 1):
        size = 60 if c.startswith("Hijri") else 40
        ws = cs.windows(c, size)
        out += [cs.P(c, *w) for w in (ws if tier == "thorough" else cs.pick(ws, seed + len(c), 1))]
    uq = cs.windows("Um Al Qura", 40)
    out += [cs.P("Um Al Qura", *w) for w in (uq if tier == "thorough" else cs.pick(uq, seed, 1))]
    return out


@lemma({"y1": int, "m1": int, "d1": int, "y2": int, "m2": int, "d2": int}, params=_order_params, budget=300, thorough_budget=600, per_path=40,
       bounds="every pair of valid LocalDates of one calendar (whole range for ISO/Julian/Coptic, a seeded 40-60-year window otherwise, both "
              "dates in the same or adjacent years): <, <=, >, >=, compare_to, min, max, == all agree with the day-number order")
def localdate_order(PM):
    P, mode = PM
    cid, lo, hi = cs.unP(P)
    cal, calc, lo, hi = cs.prepare(cid, lo, hi, tabulate_months=True)
    ymdrecord.install()
    before = cs.reset_hebrew_cache if cid.startswith("Hebrew") else None

    def mk(y, m, d):
        assume(lo <= y <= hi)
        assume(1 <= m <= calc._get_months_in_year(y))
        assume(1 <= d <= calc._get_days_in_month(y, m))
        return LocalDate(y, m, d, cal)

    def days(y, m, d):
        return calc._get_start_of_year_in_days(y) + calc._get_days_from_start_of_year_to_start_of_month(y, m) + d - 1

    def h(y1, m1, d1, y2, m2, d2):
        a, b = mk(y1, m1, d1), mk(y2, m2, d2)
        assume(y2 == y1 if mode == "same-year" else y2 == y1 + 1)    # (two partitions; farther years differ by the year comparison alone)
        da, db = days(y1, m1, d1), days(y2, m2, d2)
        c = a.compare_to(b)
        ok = (c < 0) == (da < db) and (c == 0) == (da == db) and (a < b) == (da < db) and (a <= b) == (da <= db)
        ok = ok and (a > b) == (da > db) and (a >= b) == (da >= db) and (a == b) == (da == db) and (a != b) == (da != db)
        mx, mn = LocalDate.max(a, b), LocalDate.min(a, b)
        return ok and (mx is (a if da >= db else b) or mx == (a if da >= db else b)) and (mn == (a if da <= db else b))
    return h, before


def _heb_params(tier, seed):
    out = []
    for c in cs.HEBREW:
        ws = cs.windows(c, 40)
        out += [[cs.P(c, *w), m] for w in (ws if tier == "thorough" else cs.pick(ws, seed + len(c), 1)) for m in range(1, 14)]
    return out


@lemma({"year": int, "m1": int, "d1": int, "m2": int, "d2": int}, params=_heb_params, budget=300, per_path=30,
       bounds="Hebrew calendars (both month numberings; one seeded 40-year window each x 13 partitions by month, all 250 windows in thorough): every pair of (month, day) in one year: "
              "LocalDate ordering (all operators, compare_to) and the calculator's compare agree with (month-start day, day) order, i.e. "
              "the calendar's own month order rather than the month number")
def hebrew_order(PM):
    P, first_month = PM
    cid, lo, hi = cs.unP(P)
    cal, calc, lo, hi = cs.prepare(cid, lo, hi)
    ymdrecord.install()

    def h(year, m1, d1, m2, d2):
        assume(m1 == first_month)                    # 13 partitions by the first date's month
        assume(lo <= year <= hi)
        n = calc._get_months_in_year(year)
        assume(1 <= m1 <= n)
        assume(1 <= m2 <= n)
        assume(1 <= d1 <= 30)
        assume(1 <= d2 <= 30)
        a = LocalDate._ctor(year_month_day_calendar=ymdrecord.YMDC(year, m1, d1, cal._ordinal))
        b = LocalDate._ctor(year_month_day_calendar=ymdrecord.YMDC(year, m2, d2, cal._ordinal))
        ka = calc._get_days_from_start_of_year_to_start_of_month(year, m1) * 32 + d1
        kb = calc._get_days_from_start_of_year_to_start_of_month(year, m2) * 32 + d2
        if m1 != m2:
            assume(ka // 32 != kb // 32)          # distinct months start on distinct days (C01.monthsum: every month has >= 1 day)
        c = a.compare_to(b)
        cc = calc.compare(a._year_month_day, b._year_month_day)
        return ((c < 0) == (ka < kb) and (c == 0) == (ka == kb) and (cc < 0) == (ka < kb) and (cc > 0) == (ka > kb)
                and (a < b) == (ka < kb) and (a <= b) == (ka <= kb) and (a > b) == (ka > kb) and (a >= b) == (ka >= kb))
    return h, cs.reset_hebrew_cache


@lemma({"d1": int, "n1": int, "d2": int, "n2": int}, budget=120, per_path=30,
       bounds="every pair of LocalDateTimes (DayCalendar dates): ordering operators, compare_to, ==, min/max agree with (day number, "
              "nanosecond-of-day) lexicographic order, i.e. the local timeline")
def localdatetime_order(d1, n1, d2, n2):
    from props import daycal
    host = daycal.host("Coptic")
    for n in (n1, n2):
        assume(0 <= n < NPD)
    a = LocalDateTime._ctor(local_date=daycal.date(host, d1), local_time=LocalTime._ctor(nanoseconds=n1))
    b = LocalDateTime._ctor(local_date=daycal.date(host, d2), local_time=LocalTime._ctor(nanoseconds=n2))
    ta, tb = d1 * NPD + n1, d2 * NPD + n2
    c = a.compare_to(b)
    ok = (c < 0) == (ta < tb) and (c == 0) == (ta == tb) and (a < b) == (ta < tb) and (a <= b) == (ta <= tb) and (a > b) == (ta > tb)
    ok = ok and (a >= b) == (ta >= tb) and (a == b) == (ta == tb) and (a != b) == (ta != tb)
    return ok and (LocalDateTime.max(a, b) == (a if ta >= tb else b)) and (LocalDateTime.min(a, b) == (a if ta <= tb else b))


@lemma({"d1": int, "d2": int, "n": int}, budget=60,
       bounds="ordering LocalDate / LocalDateTime values of DIFFERENT calendars raises ValueError for every pair of days (all six spellings), "
              "equality across calendars is False")
def cross_calendar_order_raises(d1, d2, n):
    from props import daycal
    h1, h2 = daycal.host("Coptic"), daycal.host("Julian")
    assume(0 <= n < NPD)
    a, b = daycal.date(h1, d1), daycal.date(h2, d2)
    t = LocalTime._ctor(nanoseconds=n)
    x, y = LocalDateTime._ctor(local_date=a, local_time=t), LocalDateTime._ctor(local_date=b, local_time=t)
    for f in (lambda: a < b, lambda: a <= b, lambda: a > b, lambda: a >= b, lambda: a.compare_to(b), lambda: LocalDate.max(a, b),
              lambda: LocalDate.min(a, b), lambda: x < y, lambda: x <= y, lambda: x > y, lambda: x >= y, lambda: x.compare_to(y)):
        try:
            f()
        except ValueError:
            continue
        return False
    return (a == b) is False and (x == y) is False and (a != b) is True


@lemma({"d": int, "n": int, "o": int, "k": int}, budget=60,
       bounds="ordering against unrelated types is refused for every value: operators raise TypeError, compare_to raises TypeError, == is False")
def foreign_type_refused(d, n, o, k):
    from props import daycal
    host = daycal.host("Coptic")
    assume(0 <= n < NPD)
    assume(-64800 <= o <= 64800)
    assume(-10 ** 6 <= k <= 10 ** 6)
    date = daycal.date(host, d)
    time = LocalTime._ctor(nanoseconds=n)
    vals = [date, time, LocalDateTime._ctor(local_date=date, local_time=time), Offset.from_seconds(o), Duration.from_nanoseconds(n),
            Instant._ctor(days=0, nano_of_day=n)]
    for v in vals:
        for f in (lambda: v < k, lambda: v <= k, lambda: v > k, lambda: v >= k, lambda: v.compare_to(k)):
            try:
                f()
            except TypeError:
                continue
            return False
        if (v == k) is not False or (v != k) is not True:
            return False
    return True


@lemma({"y1": int, "m1": int, "y2": int, "m2": int}, budget=90, per_path=30,
       bounds="every pair of ISO YearMonths (years -9998..9999): ordering, compare_to, == agree with (year, month) order")
def yearmonth_order(y1, m1, y2, m2):
    _ym_setup()
    for y in (y1, y2):
        assume(-9998 <= y <= 9999)
    for m in (m1, m2):
        assume(1 <= m <= 12)
    a, b = YearMonth(year=y1, month=m1), YearMonth(year=y2, month=m2)
    ka, kb = y1 * 12 + m1, y2 * 12 + m2
    c = a.compare_to(b)
    return ((c < 0) == (ka < kb) and (c == 0) == (ka == kb) and (a < b) == (ka < kb) and (a <= b) == (ka <= kb) and (a > b) == (ka > kb)
            and (a >= b) == (ka >= kb) and (a == b) == (ka == kb) and (a != b) == (ka != kb))


_ym = []


def _ym_setup():
    if not _ym:
        _ym.append(1)


@lemma({"m1": int, "d1": int, "m2": int, "d2": int}, budget=90, per_path=30,
       bounds="every pair of valid AnnualDates (incl. Feb 29): ordering, compare_to, == agree with (month, day) order")
def annualdate_order(m1, d1, m2, d2):
    dim = (0, 31, 29, 31, 30, 31, 30, 31, 31, 30, 31, 30, 31)
    for m, d in ((m1, d1), (m2, d2)):
        assume(1 <= m <= 12)
        assume(1 <= d <= dim[int(m)])
    a, b = AnnualDate(m1, d1), AnnualDate(m2, d2)
    ka, kb = m1 * 32 + d1, m2 * 32 + d2
    c = a.compare_to(b)
    return ((c < 0) == (ka < kb) and (c == 0) == (ka == kb) and (a < b) == (ka < kb) and (a <= b) == (ka <= kb) and (a > b) == (ka > kb)
            and (a >= b) == (ka >= kb) and (a == b) == (ka == kb) and a.month == m1 and a.day == d1)


@lemma({"d1": int, "n1": int, "o1": int, "d2": int, "n2": int, "o2": int, "other_cal": bool}, budget=120, per_path=30,
       bounds="OffsetDateTime / OffsetDate / OffsetTime equality for every pair, in the same or in two different calendars: equal exactly when "
              "calendar, local date, local time AND offset are all equal (two values for the same instant with different offsets, or the "
              "same fields in different calendars, are NOT equal)")
def offset_types_eq(d1, n1, o1, d2, n2, o2, other_cal):
    from props import daycal
    host = daycal.host("Coptic")
    host2 = daycal.host("Julian") if other_cal else host
    for n in (n1, n2):
        assume(0 <= n < NPD)
    for o in (o1, o2):
        assume(-64800 <= o <= 64800)
    da, db = daycal.date(host, d1), daycal.date(host2, d2)
    ta, tb = LocalTime._ctor(nanoseconds=n1), LocalTime._ctor(nanoseconds=n2)
    oa, ob = Offset.from_seconds(o1), Offset.from_seconds(o2)
    x = OffsetDateTime(LocalDateTime._ctor(local_date=da, local_time=ta), oa)
    y = OffsetDateTime(LocalDateTime._ctor(local_date=db, local_time=tb), ob)
    same = d1 == d2 and n1 == n2 and o1 == o2 and not other_cal
    ok = (x == y) == same and (x != y) == (not same) and x.equals(y) == same
    ok = ok and (OffsetDate(da, oa) == OffsetDate(db, ob)) == (d1 == d2 and o1 == o2 and not other_cal)
    return ok and (OffsetTime(ta, oa) == OffsetTime(tb, ob)) == (n1 == n2 and o1 == o2)


@lemma({"a0": int, "a1": int, "a2": int, "b0": int, "b1": int, "b2": int, "i": int, "j": int, "k": int}, budget=120, per_path=30,
       bounds="Period equality is component-wise: two periods whose non-zero components sit in any three of the ten unit slots (symbolic "
              "slot choice and values |v| <= 10**9) are equal iff all ten components are equal (no normalisation)")
def period_eq(a0, a1, a2, b0, b1, b2, i, j, k):
    names = ["years", "months", "weeks", "days", "hours", "minutes", "seconds", "milliseconds", "ticks", "nanoseconds"]
    for v in (a0, a1, a2, b0, b1, b2):
        assume(-10 ** 9 <= v <= 10 ** 9)
    assume(0 <= i < j)
    assume(j < k <= 9)
    ii, jj, kk = int(i), int(j), int(k)
    p = Period._ctor(**{names[ii]: a0, names[jj]: a1, names[kk]: a2})
    q = Period._ctor(**{names[ii]: b0, names[jj]: b1, names[kk]: b2})
    same = a0 == b0 and a1 == b1 and a2 == b2
    return (p == q) == same and (p != q) == (not same) and p.equals(q) == same


@lemma(premise=True, params=["ast"], budget=60)
def premise_hash_reads_eq_fields(P):
    """Source-level premise regenerated from /repo on every run: in every value type that defines both __eq__ and __hash__, __hash__ reads
    only attributes that __eq__ compares (so equal values hash equally); types with __eq__ but no __hash__ are unhashable."""
    import ast
    import os
    from symx import env
    root = os.path.join(env.REPO, "pyoda_time")
    files = ["_duration", "_instant", "_offset", "_local_date", "_local_time", "_local_date_time", "_year_month", "_annual_date",
             "_offset_date", "_offset_time", "_offset_date_time", "_zoned_date_time", "_interval", "_date_interval", "_period",
             "_year_month_day", "_year_month_day_calendar", "time_zones/_zone_interval", "time_zones/_fixed_date_time_zone"]
    derived = {"LocalDateTime": {"calendar"}}      # calendar is a function of the date compared by __eq__
    bad, seen = [], 0
    for f in files:
        tree = ast.parse(open(os.path.join(root, f + ".py")).read())
        for c in [n for n in ast.walk(tree) if isinstance(n, ast.ClassDef)]:
            fns = {fn.name: fn for fn in c.body if isinstance(fn, ast.FunctionDef)}
            if "__eq__" not in fns:
                continue
            attrs = lambda fn: {n.attr for n in ast.walk(fn) if isinstance(n, ast.Attribute) and isinstance(n.value, ast.Name) and n.value.id == "self"}  # noqa: E731
            if "__hash__" not in fns:
                continue
            seen += 1
            extra = attrs(fns["__hash__"]) - attrs(fns["__eq__"]) - derived.get(c.name, set())
            if extra:
                bad.append((c.name, sorted(extra)))
    return (not bad), (f"{seen} classes with __eq__ and __hash__ checked" if not bad else f"__hash__ reads fields __eq__ ignores: {bad}")


@lemma({"d1": int, "n1": int, "d2": int, "n2": int}, params=["Duration", "Instant", "Offset"], budget=90, per_path=30,
       bounds="every pair of valid Durations / Instants / Offsets: ==, !=, <, <=, >, >=, compare_to, equals, min and max all agree with the "
              "order of the underlying integers (nanoseconds; seconds for Offset)")
def elapsed_order(P):
    def h(d1, n1, d2, n2):
        if P == "Offset":
            assume(-64800 <= d1 <= 64800)
            assume(-64800 <= d2 <= 64800)
            assume(n1 == 0)
            assume(n2 == 0)
            a, b, ta, tb = Offset.from_seconds(d1), Offset.from_seconds(d2), d1, d2
            key = lambda x: x.seconds                                                   # noqa: E731
        else:
            for n in (n1, n2):
                assume(0 <= n < NPD)
            lo, hi = (Duration._MIN_DAYS, Duration._MAX_DAYS) if P == "Duration" else (Instant._MIN_DAYS, Instant._MAX_DAYS)
            for d in (d1, d2):
                assume(lo <= d <= hi)
            if P == "Duration":
                a, b = Duration._ctor(days=d1, nano_of_day=n1), Duration._ctor(days=d2, nano_of_day=n2)
                key = lambda x: x._floor_days * NPD + x._nanosecond_of_floor_day          # noqa: E731
            else:
                a, b = Instant._ctor(days=d1, nano_of_day=n1), Instant._ctor(days=d2, nano_of_day=n2)
                key = lambda x: x._days_since_epoch * NPD + x._nanosecond_of_day          # noqa: E731
            ta, tb = d1 * NPD + n1, d2 * NPD + n2
        c = a.compare_to(b)
        ok = (a == b) == (ta == tb) and (a != b) == (ta != tb) and (a < b) == (ta < tb) and (a <= b) == (ta <= tb)
        ok = ok and (a > b) == (ta > tb) and (a >= b) == (ta >= tb) and a.equals(b) == (ta == tb)
        ok = ok and (c < 0) == (ta < tb) and (c == 0) == (ta == tb) and (c > 0) == (ta > tb)
        cls = type(a)
        ok = ok and key(cls.max(a, b)) == max(ta, tb) and key(cls.min(a, b)) == min(ta, tb)
        return ok
    return h
