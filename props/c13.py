"""C13 — results do not depend on call history (sequential histories; the schedule dimension is outside this technique family)."""
from symx import stubs
from symx.driver import assume
from symx.lemma import lemma

stubs.standard()

from props import symzone  # noqa: E402
from props.symzone import NPD  # noqa: E402
from pyoda_time import CalendarSystem, Instant  # noqa: E402
from pyoda_time.calendars._year_start_cache_entry import _YearStartCacheEntry  # noqa: E402
from pyoda_time.time_zones._caching_zone_interval_map import _CachingZoneIntervalMap  # noqa: E402
from pyoda_time.utility._cache import _Cache  # noqa: E402


# ------------------------------------------------------------------------------------------------ year-start cache
class AnySlot:
    """Symbolic pre-state of the 1024-slot year cache: whichever slot is read holds `entry` (an arbitrary VALID entry for that
    slot, i.e. one written for some year with the same cache index, or the initial invalid entry).  One inductive step from an
    arbitrary valid pre-state covers query histories of any length."""

    def __init__(self, entry):
        self.entry = entry
        self.writes = []

    def __getitem__(self, idx):
        return self.entry

    def __setitem__(self, idx, e):
        self.writes.append((idx, e))
        self.entry = e


class AbsCalc:
    """Abstract calculator for the generic cache code: start-of-year is an arbitrary function (two symbolic values for the two years
    involved); the real _YearMonthDayCalculator._get_start_of_year_in_days runs unbound against it ("abstract self")."""

    def __init__(self, year, sy, y0, s0):
        self.year, self.sy, self.y0, self.s0 = year, sy, y0, s0
        self.calls = 0

    def _calculate_start_of_year_days(self, y):
        self.calls += 1
        if y == self.year:
            return self.sy
        if y == self.y0:
            return self.s0
        raise AssertionError("unexpected year")


@lemma({"year": int, "y0": int, "sy": int, "s0": int, "invalid": bool}, budget=60,
       bounds="generic year-start cache, one step from an arbitrary valid slot state: any queried year and any previously cached year with "
              "the same cache index in [-9999, 10000] (every calendar's range), arbitrary start-of-year values |s| <= 10**7, or the initial "
              "invalid entry: the answer equals a fresh computation and the slot written is valid for the queried year")
def yearcache_step(year, y0, sy, s0, invalid):
    from pyoda_time.calendars._year_month_day_calculator import _YearMonthDayCalculator as Y
    assume(-9999 <= year <= 10000)
    assume(-9999 <= y0 <= 10000)
    assume(-10 ** 7 <= sy <= 10 ** 7)
    assume(-10 ** 7 <= s0 <= 10 ** 7)
    assume((y0 & 1023) == (year & 1023))
    if y0 == year:
        assume(s0 == sy)
    calc = AbsCalc(year, sy, y0, s0)
    entry = _YearStartCacheEntry(_YearStartCacheEntry._INVALID_ENTRY_YEAR, 0) if invalid else _YearStartCacheEntry(y0, s0)
    slot = AnySlot(entry)
    calc._YearMonthDayCalculator__year_cache = slot
    got = Y._get_start_of_year_in_days(calc, year)
    ok = got == sy
    final = slot.entry
    return ok and final._is_valid_for_year(year) and final._start_of_year_days == sy


@lemma({"year": int, "days": int, "k": int}, budget=60,
       bounds="cache entry packing: every year in [-9999, 10000] x every start-of-year day number |d| <= 10**7: the entry is valid for its "
              "year, returns its day number, and is NOT valid for any other year with the same cache index in that range; the invalid entry is valid for no year")
def yearcache_entry(year, days, k):
    assume(-9999 <= year <= 10000)
    assume(-10 ** 7 <= days <= 10 ** 7)
    e = _YearStartCacheEntry(year, days)
    ok = e._is_valid_for_year(year) and e._start_of_year_days == days
    inv = _YearStartCacheEntry(_YearStartCacheEntry._INVALID_ENTRY_YEAR, 0)
    ok = ok and not inv._is_valid_for_year(year)
    assume(k != 0)
    other = year + 1024 * k                      # any other year with the same cache index
    assume(-9999 <= other <= 10000)
    return ok and not e._is_valid_for_year(other)


@lemma(premise=True, params=["all-calendars"], budget=60)
def premise_calendar_ranges(P):
    """Finite premise of yearcache_*: every calendar's years (one beyond each end, as the cache contract allows) lie in [-9999, 10000]
    below the invalid-entry year, and calendars are singletons per id."""
    bad = []
    for cid in CalendarSystem.ids:
        cal = CalendarSystem.for_id(cid)
        if not (-9999 <= cal.min_year - 1 and cal.max_year + 1 <= 10000 and cal.max_year + 1 < _YearStartCacheEntry._INVALID_ENTRY_YEAR):
            bad.append(cid)
        if CalendarSystem.for_id(cid) is not cal:
            bad.append(cid + " not singleton")
        if cal.id != cid:
            bad.append(f"for_id({cid!r}).id == {cal.id!r}")
    # every route to a calendar gives the SAME object as its id does, whatever was requested before (asked here in both orders)
    from pyoda_time.calendars import IslamicEpoch, IslamicLeapYearPattern
    pat_name = {IslamicLeapYearPattern.BASE15: "Base15", IslamicLeapYearPattern.BASE16: "Base16", IslamicLeapYearPattern.INDIAN: "Indian",
                IslamicLeapYearPattern.HABASH_AL_HASIB: "HabashAlHasib"}
    ep_name = {IslamicEpoch.CIVIL: "Civil", IslamicEpoch.ASTRONOMICAL: "Astronomical"}
    combos = [(p, e) for p in pat_name for e in ep_name]
    for p, e in combos + combos[::-1]:
        want = f"Hijri {ep_name[e]}-{pat_name[p]}"
        got = CalendarSystem.get_islamic_calendar(p, e)
        if got.id != want or got is not CalendarSystem.for_id(want):
            bad.append(f"get_islamic_calendar({pat_name[p]}, {ep_name[e]}) is {got.id!r}")
    return (not bad), (f"violations: {bad}" if bad else "all calendar year ranges inside the cache's validity range; singletons per id")


# ------------------------------------------------------------------------------------------------ the Hebrew calculator's own global cache
@lemma({"year": int, "v": int, "y0": int, "v0": int, "invalid": bool}, budget=90,
       bounds="_HebrewScripturalCalculator.__get_or_populate_cache, one step from an arbitrary valid slot state: any queried year 1..9999, "
              "the slot holding either the initial invalid entry or the entry of ANY year with the same cache index (value v0), the entry "
              "computation abstract (v for the queried year, v0 for the other; 0 <= v < 2**24): the answer is v, the computation runs at "
              "most once, and the slot afterwards is valid for the queried year with value v")
def hebrew_cache_step(year, v, y0, v0, invalid):
    from pyoda_time.calendars._hebrew_scriptural_calculator import _HebrewScripturalCalculator as HS
    assume(1 <= year <= 9999)
    assume(1 <= y0 <= 9999)
    assume(0 <= v < 2 ** 24)
    assume(0 <= v0 < 2 ** 24)
    assume(_YearStartCacheEntry._get_cache_index(y0) == _YearStartCacheEntry._get_cache_index(year))
    if y0 == year:
        assume(v0 == v)
    calls = []

    def compute(cls, y):
        calls.append(y)
        if y == year:
            return v
        if y == y0:
            return v0
        raise AssertionError("unexpected year")
    slot = AnySlot(_YearStartCacheEntry._YearStartCacheEntry__invalid() if invalid else _YearStartCacheEntry(y0, v0))
    saved = (HS._HebrewScripturalCalculator__compute_cache_entry, HS._HebrewScripturalCalculator__YEAR_CACHE)
    HS._HebrewScripturalCalculator__compute_cache_entry = classmethod(compute)
    HS._HebrewScripturalCalculator__YEAR_CACHE = slot
    try:
        got = HS._HebrewScripturalCalculator__get_or_populate_cache(year)
        again = HS._HebrewScripturalCalculator__get_or_populate_cache(year)
    finally:
        HS._HebrewScripturalCalculator__compute_cache_entry, HS._HebrewScripturalCalculator__YEAR_CACHE = saved
    e = slot.entry
    return got == v and again == v and len(calls) <= 1 and e._is_valid_for_year(year) and e._start_of_year_days == v


class IndexedSlot:
    """Pre-state of the Hebrew year cache in which EVERY slot holds a valid entry for that slot: the entry of some year y0 whose cache
    index is the index being read (the year is symbolic; which slot the code reads fixes its residue), or the initial invalid entry."""

    def __init__(self, y0, value, invalid):
        self.y0, self.value, self.invalid = y0, value, invalid
        self.reads = []

    def __getitem__(self, idx):
        self.reads.append(idx)
        if self.invalid:
            return _YearStartCacheEntry._YearStartCacheEntry__invalid()
        assume(_YearStartCacheEntry._get_cache_index(self.y0) == idx)      # a slot only ever holds entries of years with its index
        return _YearStartCacheEntry(self.y0, self.value)

    def __setitem__(self, idx, e):
        pass


@lemma({"year": int, "E": int, "L": int, "y0": int, "E0": int, "b0": int, "invalid": bool}, budget=120, per_path=40,
       bounds="_HebrewScripturalCalculator.__compute_cache_entry, from an arbitrary VALID cache state (the slot it peeks into holds the initial "
              "invalid entry or the correct entry of ANY year with that slot's index), the elapsed-days function abstract and consistent with "
              "the cached entry (E for the year, E + L for the next; 300 <= L <= 400): the entry computed is (E << 2) | long-Heshvan | "
              "short-Kislev bits of L, whatever the cache holds - the shortcut through the cache cannot change the answer")
def hebrew_entry_any_slot(year, E, L, y0, E0, b0, invalid):
    from pyoda_time.calendars._hebrew_scriptural_calculator import _HebrewScripturalCalculator as HS
    assume(1 <= year <= 9998)
    assume(1 <= y0 <= 9999)
    assume(0 <= E < 2 ** 22)
    assume(0 <= E0 < 2 ** 22)
    assume(300 <= L <= 400)
    assume(0 <= b0 <= 3)
    # the cached entry is CORRECT for its own year (that is what "valid state" means): where its year is one the abstract function knows, it agrees
    if y0 == year + 1:
        assume(E0 == E + L)
    if y0 == year:
        assume(E0 == E)

    def elapsed(cls, y):
        if y == year:
            return E
        if y == year + 1:
            return E + L
        raise AssertionError("abstract elapsed-days function asked for an unexpected year")
    slot = IndexedSlot(y0, E0 * 4 + b0, invalid)
    saved = (HS._HebrewScripturalCalculator__elapsed_days_no_cache, HS._HebrewScripturalCalculator__YEAR_CACHE)
    HS._HebrewScripturalCalculator__elapsed_days_no_cache = classmethod(elapsed)
    HS._HebrewScripturalCalculator__YEAR_CACHE = slot
    try:
        entry = HS._HebrewScripturalCalculator__compute_cache_entry(year)
    finally:
        HS._HebrewScripturalCalculator__elapsed_days_no_cache, HS._HebrewScripturalCalculator__YEAR_CACHE = saved
    return entry == E * 4 + (1 if L % 10 == 5 else 0) + (2 if L % 10 == 3 else 0)


# ------------------------------------------------------------------------------------------------ zone-interval cache
def _zonecache(k_index):
    def h(d1, n1, o0, o1, ad, an, bd, bn):
        zone, T = symzone.make([(d1, n1)], [o0, o1])
        for d in (ad, bd):
            assume(symzone.LO + 40 <= d <= symzone.HI - 40)
        for n in (an, bn):
            assume(0 <= n < NPD)
        pa, pb = ad // 32, bd // 32
        assume(pb % 512 == k_index)                    # the slot is chosen by the parameter (the code is uniform in the index)
        assume((pa - pb) % 512 == 0)                   # the earlier query filled the same slot: same period or an aliasing one
        cache = _CachingZoneIntervalMap._cache_map(zone)
        a = Instant._ctor(days=ad, nano_of_day=an)
        b = Instant._ctor(days=bd, nano_of_day=bn)
        ra = cache.get_zone_interval(a)
        rb = cache.get_zone_interval(b)
        rb2 = cache.get_zone_interval(b)
        ta, tb = ad * NPD + an, bd * NPD + bn
        want_a = zone.intervals[0] if ta < T[0] else zone.intervals[1]
        want_b = zone.intervals[0] if tb < T[0] else zone.intervals[1]
        return ra is want_a and rb is want_b and rb2 is want_b
    return h


@lemma({"d1": int, "n1": int, "o0": int, "o1": int, "ad": int, "an": int, "bd": int, "bn": int},
       params=lambda tier, seed: [(seed * 37 + 11) % 512] if tier == "quick" else [0, 1, 255, 256, 511, (seed * 37 + 11) % 512],
       budget=300, per_path=30,
       bounds="caching zone-interval map over a symbolic zone (one transition anywhere, any offsets): ANY two queries whose 32-day periods "
              "fall into the same cache slot (same period, or aliasing periods 16384 days apart, in either order), then the second query "
              "again: every answer is the underlying zone's interval (slot index fixed by the parameter; the code is uniform in it)")
def zonecache_two_queries(P):
    return _zonecache(P)


# ------------------------------------------------------------------------------------------------ least-recently-added cache
@lemma({"k0": int, "k1": int, "k2": int, "k3": int}, budget=120,
       bounds="_Cache(size 2) x every sequence of 4 lookups over 3 keys: always value_factory(key); never more than 2 entries; the factory "
              "is called at most once per residency; lock released after every call")
def lru_sequences(k0, k1, k2, k3):
    import pyoda_time.utility._cache as cm
    made = []

    class _L(stubs.MonitorLock):
        pass
    old = cm.Lock
    cm.Lock = _L
    try:
        c = _Cache(2, lambda k: (made.append(k), ("v", k))[1])
    finally:
        cm.Lock = old
    lock = c._Cache__lock
    resident = []
    for k in (k0, k1, k2, k3):
        assume(0 <= k <= 2)
        kk = int(k)
        v = c.get_or_add(kk)
        if v != ("v", kk) or lock.held:
            return False
        if kk not in resident:
            resident.append(kk)
            if len(resident) > 2:
                resident.pop(0)
        if c.count() > 2 or sorted(c.keys()) != sorted(resident):
            return False
    return True
