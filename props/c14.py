"""C14 — the tz database binary codec is lossless and canonical.  Real writer -> list-backed stream -> real reader."""
from symx import stubs
from symx.driver import assume
from symx.lemma import lemma

stubs.standard()

from pyoda_time import Duration, Instant, LocalTime, Offset, PyodaConstants  # noqa: E402
from pyoda_time.time_zones._transition_mode import _TransitionMode  # noqa: E402
from pyoda_time.time_zones._zone_year_offset import _ZoneYearOffset  # noqa: E402
from pyoda_time.time_zones.io._date_time_zone_reader import _DateTimeZoneReader  # noqa: E402
from pyoda_time.time_zones.io._date_time_zone_writer import _DateTimeZoneWriter  # noqa: E402

Stream = stubs.Stream
NPD = PyodaConstants.NANOSECONDS_PER_DAY
MPD = PyodaConstants.MILLISECONDS_PER_DAY


def W(pool=None):
    s = Stream()
    return s, _DateTimeZoneWriter._ctor(s, pool)


def R(s, pool=None):
    return _DateTimeZoneReader._ctor(s, pool)


def done(s):
    return s.pos == len(s.buf)


# ------------------------------------------------------------------ primitive channels (assume-guarantee)
# A composite lemma may replace a primitive write/read pair by an abstract FIFO channel; the channel's contract (value written =
# value read, same acceptance range) is exactly the primitive's own round-trip lemma, proved on the real code above/below.
CHAN = []
_installed = set()


def install_channels(*names):
    from crosshair.core import register_patch
    Wc, Rc = _DateTimeZoneWriter, _DateTimeZoneReader
    for nm in names:
        if nm in _installed:
            continue
        _installed.add(nm)
        if nm == "int64":
            register_patch(Wc._DateTimeZoneWriter__write_int64, lambda self, v: CHAN.append(("i64", (v + 2 ** 63) % 2 ** 64 - 2 ** 63)))
            register_patch(Rc._DateTimeZoneReader__read_int64, lambda self: _pop("i64"))
            stubs.STUBS_IN_FORCE.append("abstraction:64-bit channel (contract = fixed_width_rt[64])")
        elif nm == "millis":
            def wm(self, v):
                if not (-MPD < v < MPD):
                    raise ValueError("out of range")
                CHAN.append(("ms", v))
            register_patch(Wc.write_milliseconds, wm)
            register_patch(Rc.read_milliseconds, lambda self: _pop("ms"))
            stubs.STUBS_IN_FORCE.append("abstraction:millisecond channel (contract = millis_rt)")
        elif nm == "count":
            def wc(self, v):
                if not (0 <= v <= 2 ** 31 - 1):
                    raise ValueError("out of range")
                CHAN.append(("c", v))
            register_patch(Wc.write_count, wc)
            register_patch(Rc.read_count, lambda self: _pop("c"))
            stubs.STUBS_IN_FORCE.append("abstraction:count channel (contract = count_rt)")
        elif nm == "signed":
            register_patch(Wc.write_signed_count, lambda self, v: CHAN.append(("s", v)))
            register_patch(Rc.read_signed_count, lambda self: _pop("s"))
            stubs.STUBS_IN_FORCE.append("abstraction:signed-count channel (contract = signed_rt, int32 values)")


def _pop(tag):
    t, v = CHAN.pop(0)
    if t != tag:
        raise AssertionError(f"codec desynchronised: wrote {t}, read {tag}")
    return v


# ------------------------------------------------------------------ reference encoders (from the documented format)
def ref_varint(v):
    out = []
    while v > 0x7F:
        out.append((v & 0x7F) | 0x80)
        v >>= 7
    out.append(v & 0x7F)
    return out


def ref_millis(m):
    """documented compact forms: 1 byte (half-hours), 2 bytes (minutes), 3 bytes (seconds), 4 bytes (milliseconds)"""
    m += MPD
    if m % 1800000 == 0:
        return [m // 1800000]
    if m % 60000 == 0:
        q = m // 60000
        return [0x80 | (q >> 8), q & 0xFF]
    if m % 1000 == 0:
        q = m // 1000
        return [0xA0 | (q >> 16), (q >> 8) & 0xFF, q & 0xFF]
    return [0xC0 | (m >> 24), (m >> 16) & 0xFF, (m >> 8) & 0xFF, m & 0xFF]


@lemma({"n": int}, budget=30, bounds="n: any int with |n| <= 2**40 (accepted iff 0 <= n <= 2**31-1)")
def count_rt(n):
    assume(-2 ** 40 <= n <= 2 ** 40)
    s, w = W()
    try:
        w.write_count(n)
    except ValueError:
        return not (0 <= n <= 2 ** 31 - 1)
    r = R(s)
    return 0 <= n <= 2 ** 31 - 1 and r.read_count() == n and done(s)


@lemma({"n": int}, budget=30, bounds="n: every int32")
def signed_rt(n):
    assume(-2 ** 31 <= n < 2 ** 31)
    s, w = W()
    w.write_signed_count(n)
    return R(s).read_signed_count() == n and done(s)


@lemma({"n": int}, budget=60, bounds="n: any int with |n| <= 2*86_400_000 (accepted iff strictly within one day either side of zero)")
def millis_rt(n):
    assume(-2 * MPD <= n <= 2 * MPD)
    s, w = W()
    try:
        w.write_milliseconds(n)
    except ValueError:
        return not (-MPD < n < MPD)
    return -MPD < n < MPD and R(s).read_milliseconds() == n and done(s)


@lemma({"n": int, "b0": int, "b1": int, "b2": int, "b3": int, "ln": int}, budget=60,
       bounds="every millisecond value within a day either side of zero: the bytes written are exactly the documented compact form")
def millis_canonical(n, b0, b1, b2, b3, ln):
    assume(-MPD < n < MPD)
    s, w = W()
    w.write_milliseconds(n)
    m = n + MPD
    # state the reference encoding without re-running the writer's arithmetic on the same terms: the reader-side meaning
    buf = s.buf
    if m % 1800000 == 0:
        return len(buf) == 1 and buf[0] * 1800000 == m and buf[0] < 0x80
    if m % 60000 == 0:
        return len(buf) == 2 and (buf[0] & 0xE0) == 0x80 and ((buf[0] & 0x1F) * 256 + buf[1]) * 60000 == m
    if m % 1000 == 0:
        return len(buf) == 3 and (buf[0] & 0xE0) == 0xA0 and ((buf[0] & 0x1F) * 65536 + buf[1] * 256 + buf[2]) * 1000 == m
    return len(buf) == 4 and (buf[0] & 0xE0) == 0xC0 and (buf[0] & 0x1F) * 2 ** 24 + buf[1] * 65536 + buf[2] * 256 + buf[3] == m


@lemma({"sec": int}, budget=30, bounds="every Offset in +-18h")
def offset_rt(sec):
    assume(-64800 <= sec <= 64800)
    s, w = W()
    w.write_offset(Offset.from_seconds(sec))
    return R(s).read_offset().seconds == sec and done(s)


def _inst(d, n):
    assume(Instant._MIN_DAYS <= d <= Instant._MAX_DAYS)
    assume(0 <= n < NPD)
    return Instant._ctor(days=d, nano_of_day=n)


EPOCH1800 = _DateTimeZoneWriter._ZoneIntervalConstants._EPOCH_FOR_MINUTES_SINCE_EPOCH
E_DAYS = EPOCH1800._days_since_epoch
TICK = 100


def _transition_case(kind):
    """partition of (previous, value) pairs by the encoding the documented format prescribes"""

    def h(pd, pn, vd, vn, hasprev):
        value = _inst(vd, vn)
        assume(vn % TICK == 0)             # the format stores ticks; sub-tick instants are outside the writer's domain
        prev = None
        if hasprev:
            prev = _inst(pd, pn)
            assume(pn % TICK == 0)
            assume(pd * NPD + pn <= vd * NPD + vn)
        dt = (vd * NPD + vn) - (pd * NPD + pn)
        whole_hours = hasprev and dt % (3600 * 10 ** 9) == 0 and 128 <= dt // (3600 * 10 ** 9) < 2 ** 21
        since1800 = (vd - E_DAYS) * NPD + vn
        whole_minutes = since1800 >= 0 and since1800 % (60 * 10 ** 9) == 0 and 2 ** 21 < since1800 // (60 * 10 ** 9) <= 2 ** 31 - 1
        if kind == "hours":
            assume(whole_hours)
        elif kind == "minutes":
            assume(not whole_hours)
            assume(whole_minutes)
        else:
            assume(not whole_hours)
            assume(not whole_minutes)
        s, w = W()
        del CHAN[:]
        w.write_zone_interval_transition(prev, value)
        n_bytes = len(s.buf) + 8 * len(CHAN)      # a 64-bit word sent through the abstract channel counts as its 8 bytes
        back = R(s).read_zone_interval_transition(prev)
        ok = back == value and done(s)
        # canonical: the compact form is used whenever the documented rule allows it
        if kind == "hours":
            ok = ok and n_bytes <= 3
        elif kind == "minutes":
            ok = ok and 4 <= n_bytes <= 5
        else:
            ok = ok and n_bytes == 9 and s.buf[0] == 2 and not CHAN
        return ok
    return h


@lemma({"pd": int, "pn": int, "vd": int, "vn": int, "hasprev": bool}, params=["hours", "minutes", "raw"], budget=120, per_path=30,
       bounds="every (previous, value) pair of valid tick-aligned Instants with previous <= value (or no previous), "
              "partitioned by the documented encoding rule (hours since previous / minutes since 1800 / raw ticks)")
def transition_rt(P):
    if P == "raw":
        install_channels("int64")
    return _transition_case(P)


@lemma({"pd": int, "pn": int, "hasprev": bool, "which": bool}, budget=30,
       bounds="start-of-time and end-of-time markers after any (or no) previous instant")
def transition_markers(pd, pn, hasprev, which):
    prev = _inst(pd, pn) if hasprev else None
    value = Instant._before_min_value() if which else Instant._after_max_value()
    if hasprev and which:
        return True  # 'value >= previous' is a documented precondition; the min marker only ever follows no previous
    s, w = W()
    w.write_zone_interval_transition(prev, value)
    back = R(s).read_zone_interval_transition(prev)
    return back == value and done(s) and len(s.buf) == 1


@lemma({"idx": int}, budget=30, bounds="every index of a 5-entry string pool; a new string is appended to the pool")
def string_pooled(idx):
    assume(0 <= idx <= 5)
    pool = ["UTC", "GMT", "CET", "a", ""]
    want = pool[idx] if idx < 5 else "new"
    s, w = W(pool)
    w.write_string(want)
    return R(s, pool).read_string() == want and done(s) and (idx < 5) == (len(pool) == 5)


CODEPOINTS = (0x00, 0x41, 0x7F, 0x80, 0xE7, 0x7FF, 0x800, 0xFFFD, 0x10000)   # 1-, 2-, 3- and 4-byte UTF-8 forms and their edges


@lemma({"i0": int, "i1": int, "ln": int}, budget=120,
       bounds="inline (pool-less) strings of length <= 2 over 9 representative code points spanning the 1/2/3/4-byte UTF-8 forms "
              "(the UTF-8 codec is a C boundary: code points are chosen by forking, not solved for)")
def string_inline(i0, i1, ln):
    assume(0 <= ln <= 2)
    assume(0 <= i0 < len(CODEPOINTS))
    assume(0 <= i1 < len(CODEPOINTS))
    text = "".join(chr(CODEPOINTS[int(i)]) for i in (i0, i1)[:int(ln)])
    import io
    out = io.BytesIO()
    w = _DateTimeZoneWriter._ctor(out, None)
    w.write_string(text)
    w.write_byte(0x55)                      # sentinel: the reader must stop exactly where the string ends
    r = _DateTimeZoneReader._ctor(io.BytesIO(out.getvalue()), None)
    return r.read_string() == text and r.read_byte() == 0x55 and not r.has_more_data


@lemma({"mode": int, "month": int, "dom": int, "dow": int, "adv": bool, "addday": bool, "ms": int}, params=["all-fields"],
       budget=120, per_path=30,
       bounds="every _ZoneYearOffset: mode 0..2, month 1..12, day-of-month +-1..31, day-of-week 0..7, both flags, time of day in whole "
              "ms; primitives (count, signed count, milliseconds) as abstract channels whose contracts are the primitive lemmas")
def yearoffset_rt(P):
    install_channels("millis", "count", "signed")

    def h(mode, month, dom, dow, adv, addday, ms):
        del CHAN[:]
        assume(0 <= mode <= 2)
        assume(1 <= month <= 12)
        assume(-31 <= dom <= 31)
        assume(dom != 0)
        assume(0 <= dow <= 7)
        assume(0 <= ms < MPD)
        yo = _ZoneYearOffset._ctor(_TransitionMode(mode), month, dom, dow, adv, LocalTime.from_milliseconds_since_midnight(ms), addday)
        s, w = W()
        yo._write(w)
        back = _ZoneYearOffset.read(R(s))
        return back == yo and done(s) and not CHAN and back.time_of_day.nanosecond_of_day == ms * 10 ** 6 and int(back.mode) == mode
    return h


@lemma(premise=True, params=["bundled", "tests/test_data/Tzdb2013bFromNodaTime1.1.nzd"], budget=600)
def premise_reencode(P):
    """Finite data replay (no quantifier left): every zone of the bundled database re-encodes to the bytes it was decoded from."""
    import io
    from pyoda_time.time_zones._tzdb_date_time_zone_source import TzdbDateTimeZoneSource
    from pyoda_time.time_zones.io._tzdb_stream_data import _TzdbStreamData
    if P == "bundled":
        src = TzdbDateTimeZoneSource.default
    else:
        import os
        from symx import env
        with open(os.path.join(env.REPO, P), "rb") as f:
            src = TzdbDateTimeZoneSource.from_stream(f)
    data = src._TzdbDateTimeZoneSource__source if hasattr(src, "_TzdbDateTimeZoneSource__source") else None
    if data is None:
        return True, "source data not reachable (skipped)"
    bad = []
    n = 0
    skipped = 0
    fields = data._TzdbStreamData__zone_fields
    pool = data._TzdbStreamData__string_pool
    for zid, field in fields.items():
        raw = bytes(field._TzdbStreamField__data)
        zone = data.create_zone(zid, zid)
        out = io.BytesIO()
        w = _DateTimeZoneWriter._ctor(out, list(pool))
        w.write_string(zid)
        from pyoda_time.time_zones._fixed_date_time_zone import _FixedDateTimeZone
        from pyoda_time.time_zones._cached_date_time_zone import _CachedDateTimeZone
        z = zone._time_zone if isinstance(zone, _CachedDateTimeZone) else zone
        if isinstance(z, _FixedDateTimeZone):
            skipped += 1            # the port has no writer for fixed zones; the property speaks of rule-based zones
            continue
        w.write_byte(2)
        z._write(w)
        n += 1
        if out.getvalue() != raw:
            bad.append(zid)
    return (not bad), (f"{n} rule-based zones re-encoded byte-identically ({skipped} fixed zones skipped)" if not bad else f"{len(bad)} of {n} zones differ, e.g. {bad[:5]}")


@lemma({"v": int}, params=[16, 32, 64], budget=60,
       bounds="16/32: any int |v| <= 2**70 is stored modulo 2**width (big-endian) and read back as that residue; "
              "64: every int64, over the 32-bit channel abstracted by the [32] contract")
def fixed_width_rt(P):
    if P == 64:
        from crosshair.core import register_patch
        chan = []

        def w32(self, value):
            chan.append(value % 2 ** 32)

        def r32(self):
            return chan.pop(0)
        register_patch(_DateTimeZoneWriter._DateTimeZoneWriter__write_int32, w32)
        register_patch(_DateTimeZoneReader._DateTimeZoneReader__read_int32, r32)
        stubs.STUBS_IN_FORCE.append("abstraction:32-bit channel (contract = fixed_width_rt[32])")

    def h(v):
        s, w = W()
        r = R(s)
        if P == 16:
            assume(-2 ** 70 <= v <= 2 ** 70)
            w._DateTimeZoneWriter__write_int16(v)
            return r._DateTimeZoneReader__read_int16() == v % 2 ** 16 and done(s) and len(s.buf) == 2
        if P == 32:
            assume(-2 ** 70 <= v <= 2 ** 70)
            w._DateTimeZoneWriter__write_int32(v)
            return r._DateTimeZoneReader__read_int32() == v % 2 ** 32 and done(s) and len(s.buf) == 4
        assume(-2 ** 63 <= v < 2 ** 63)
        del chan[:]
        w._DateTimeZoneWriter__write_int64(v)
        return r._DateTimeZoneReader__read_int64() == v and not chan
    return h
