"""C14 — the tz database binary codec is lossless and canonical.  Real writer -> list-backed stream -> real reader."""
from symx import stubs
from symx.driver import assume
from symx.lemma import lemma

stubs.standard()

from pyoda_time import Duration, Instant, LocalTime, Offset, PyodaConstants  # noqa: E402
from pyoda_time.time_zones._transition_mode import _TransitionMode  # noqa: E402
from pyoda_time.time_zones._zone_year_offset import _ZoneYearOffset  # noqa: E402
from pyoda_time.time_zones.io._date_time_zone_reader import _DateTimeZoneReader  # noqa: E402
from pyoda_time.time_zones.io._date_time_zone_writer import _DateTimeZoneWriter  # noqa: E402

Stream = stubs.Stream
NPD = PyodaConstants.NANOSECONDS_PER_DAY
MPD = PyodaConstants.MILLISECONDS_PER_DAY


def W(pool=None):
    s = Stream()
    return s, _DateTimeZoneWriter._ctor(s, pool)


def R(s, pool=None):
    return _DateTimeZoneReader._ctor(s, pool)


def done(s):
    return s.pos == len(s.buf)


# ------------------------------------------------------------------ primitive channels (assume-guarantee)
# A composite lemma may replace a primitive write/read pair by an abstract FIFO channel; the channel's contract (value written =
# value read, same acceptance range) is exactly the primitive's own round-trip lemma, proved on the real code above/below.
CHAN = []
_installed = set()


def install_channels(*names):
    from crosshair.core import register_patch
    Wc, Rc = _DateTimeZoneWriter, _DateTimeZoneReader
    for nm in names:
        if nm in _installed:
            continue
        _installed.add(nm)
        if nm == "int64":
            register_patch(Wc._DateTimeZoneWriter__write_int64, lambda self, v: CHAN.append(("i64", (v + 2 ** 63) % 2 ** 64 - 2 ** 63)))
            register_patch(Rc._DateTimeZoneReader__read_int64, lambda self: _pop("i64"))
            stubs.STUBS_IN_FORCE.append("abstraction:64-bit channel (contract = fixed_width_rt[64])")
        elif nm == "millis":
            def wm(self, v):
                if not (-MPD < v < MPD):
                    raise ValueError("out of range")
                CHAN.append(("ms", v))
            register_patch(Wc.write_milliseconds, wm)
            register_patch(Rc.read_milliseconds, lambda self: _pop("ms"))
            stubs.STUBS_IN_FORCE.append("abstraction:millisecond channel (contract = millis_rt)")
        elif nm == "count":
            def wc(self, v):
                if not (0 <= v <= 2 ** 31 - 1):
                    raise ValueError("out of range")
                CHAN.append(("c", v))
            register_patch(Wc.write_count, wc)
            register_patch(Rc.read_count, lambda self: _pop("c"))
            stubs.STUBS_IN_FORCE.append("abstraction:count channel (contract = count_rt)")
        elif nm == "transition":
            def wt(self, previous, value):
                CHAN.append(("t", (previous, value)))

            def rt(self, previous):
                prev_w, value = _pop("t")
                same = (previous is None and prev_w is None) or (previous is not None and prev_w is not None and previous == prev_w)
                if not same:
                    raise AssertionError("reader and writer disagree on the previous transition")
                return value
            register_patch(Wc.write_zone_interval_transition, wt)
            register_patch(Rc.read_zone_interval_transition, rt)
            stubs.STUBS_IN_FORCE.append("abstraction:transition channel (contract = transition_rt / transition_markers: the value written is the value "
                                        "read when reader and writer use the same previous transition - which the channel checks)")
        elif nm == "signed":
            register_patch(Wc.write_signed_count, lambda self, v: CHAN.append(("s", v)))
            register_patch(Rc.read_signed_count, lambda self: _pop("s"))
            stubs.STUBS_IN_FORCE.append("abstraction:signed-count channel (contract = signed_rt, int32 values)")


def _pop(tag):
    t, v = CHAN.pop(0)
    if t != tag:
        raise AssertionError(f"codec desynchronised: wrote {t}, read {tag}")
    return v


# ------------------------------------------------------------------ reference encoders (from the documented format)
def ref_varint(v):
    out = []
    while v > 0x7F:
        out.append((v & 0x7F) | 0x80)
        v >>= 7
    out.append(v & 0x7F)
    return out


def ref_millis(m):
    """documented compact forms: 1 byte (half-hours), 2 bytes (minutes), 3 bytes (seconds), 4 bytes (milliseconds)"""
    m += MPD
    if m % 1800000 == 0:
        return [m // 1800000]
    if m % 60000 == 0:
        q = m // 60000
        return [0x80 | (q >> 8), q & 0xFF]
    if m % 1000 == 0:
        q = m // 1000
        return [0xA0 | (q >> 16), (q >> 8) & 0xFF, q & 0xFF]
    return [0xC0 | (m >> 24), (m >> 16) & 0xFF, (m >> 8) & 0xFF, m & 0xFF]


@lemma({"n": int}, budget=30, bounds="n: any int with |n| <= 2**40 (accepted iff 0 <= n <= 2**31-1)")
def count_rt(n):
    assume(-2 ** 40 <= n <= 2 ** 40)
    s, w = W()
    try:
        w.write_count(n)
    except ValueError:
        return not (0 <= n <= 2 ** 31 - 1)
    r = R(s)
    return 0 <= n <= 2 ** 31 - 1 and r.read_count() == n and done(s)


@lemma({"n": int}, budget=30, bounds="n: every int32")
def signed_rt(n):
    assume(-2 ** 31 <= n < 2 ** 31)
    s, w = W()
    w.write_signed_count(n)
    return R(s).read_signed_count() == n and done(s)


@lemma({"n": int}, budget=60, bounds="n: any int with |n| <= 2*86_400_000 (accepted iff strictly within one day either side of zero)")
def millis_rt(n):
    assume(-2 * MPD <= n <= 2 * MPD)
    s, w = W()
    try:
        w.write_milliseconds(n)
    except ValueError:
        return not (-MPD < n < MPD)
    return -MPD < n < MPD and R(s).read_milliseconds() == n and done(s)


@lemma({"n": int, "b0": int, "b1": int, "b2": int, "b3": int, "ln": int}, budget=60,
       bounds="every millisecond value within a day either side of zero: the bytes written are exactly the documented compact form")
def millis_canonical(n, b0, b1, b2, b3, ln):
    assume(-MPD < n < MPD)
    s, w = W()
    w.write_milliseconds(n)
    m = n + MPD
    # state the reference encoding without re-running the writer's arithmetic on the same terms: the reader-side meaning
    buf = s.buf
    if m % 1800000 == 0:
        return len(buf) == 1 and buf[0] * 1800000 == m and buf[0] < 0x80
    if m % 60000 == 0:
        return len(buf) == 2 and (buf[0] & 0xE0) == 0x80 and ((buf[0] & 0x1F) * 256 + buf[1]) * 60000 == m
    if m % 1000 == 0:
        return len(buf) == 3 and (buf[0] & 0xE0) == 0xA0 and ((buf[0] & 0x1F) * 65536 + buf[1] * 256 + buf[2]) * 1000 == m
    return len(buf) == 4 and (buf[0] & 0xE0) == 0xC0 and (buf[0] & 0x1F) * 2 ** 24 + buf[1] * 65536 + buf[2] * 256 + buf[3] == m


@lemma({"sec": int}, budget=30, bounds="every Offset in +-18h")
def offset_rt(sec):
    assume(-64800 <= sec <= 64800)
    s, w = W()
    w.write_offset(Offset.from_seconds(sec))
    return R(s).read_offset().seconds == sec and done(s)


def _inst(d, n):
    assume(Instant._MIN_DAYS <= d <= Instant._MAX_DAYS)
    assume(0 <= n < NPD)
    return Instant._ctor(days=d, nano_of_day=n)


EPOCH1800 = _DateTimeZoneWriter._ZoneIntervalConstants._EPOCH_FOR_MINUTES_SINCE_EPOCH
E_DAYS = EPOCH1800._days_since_epoch
TICK = 100


def _transition_case(kind):
    """partition of (previous, value) pairs by the encoding the documented format prescribes"""

    def h(pd, pn, vd, vn, hasprev):
        value = _inst(vd, vn)
        assume(vn % TICK == 0)             # the format stores ticks; sub-tick instants are outside the writer's domain
        prev = None
        if hasprev:
            prev = _inst(pd, pn)
            assume(pn % TICK == 0)
            assume(pd * NPD + pn <= vd * NPD + vn)
        dt = (vd * NPD + vn) - (pd * NPD + pn)
        whole_hours = hasprev and dt % (3600 * 10 ** 9) == 0 and 128 <= dt // (3600 * 10 ** 9) < 2 ** 21
        since1800 = (vd - E_DAYS) * NPD + vn
        whole_minutes = since1800 >= 0 and since1800 % (60 * 10 ** 9) == 0 and 2 ** 21 < since1800 // (60 * 10 ** 9) <= 2 ** 31 - 1
        if kind == "hours":
            assume(whole_hours)
        elif kind == "minutes":
            assume(not whole_hours)
            assume(whole_minutes)
        else:
            assume(not whole_hours)
            assume(not whole_minutes)
        s, w = W()
        del CHAN[:]
        w.write_zone_interval_transition(prev, value)
        n_bytes = len(s.buf) + 8 * len(CHAN)      # a 64-bit word sent through the abstract channel counts as its 8 bytes
        back = R(s).read_zone_interval_transition(prev)
        ok = back == value and done(s)
        # canonical: the compact form is used whenever the documented rule allows it
        if kind == "hours":
            ok = ok and n_bytes <= 3
        elif kind == "minutes":
            ok = ok and 4 <= n_bytes <= 5
        else:
            ok = ok and n_bytes == 9 and s.buf[0] == 2 and not CHAN
        return ok
    return h


@lemma({"pd": int, "pn": int, "vd": int, "vn": int, "hasprev": bool}, params=["hours", "minutes", "raw"], budget=120, per_path=30,
       bounds="every (previous, value) pair of valid tick-aligned Instants with previous <= value (or no previous), "
              "partitioned by the documented encoding rule (hours since previous / minutes since 1800 / raw ticks)")
def transition_rt(P):
    if P == "raw":
        install_channels("int64")
    return _transition_case(P)


@lemma({"pd": int, "pn": int, "hasprev": bool, "which": bool}, budget=30,
       bounds="start-of-time and end-of-time markers after any (or no) previous instant")
def transition_markers(pd, pn, hasprev, which):
    prev = _inst(pd, pn) if hasprev else None
    value = Instant._before_min_value() if which else Instant._after_max_value()
    if hasprev and which:
        return True  # 'value >= previous' is a documented precondition; the min marker only ever follows no previous
    s, w = W()
    w.write_zone_interval_transition(prev, value)
    back = R(s).read_zone_interval_transition(prev)
    return back == value and done(s) and len(s.buf) == 1


@lemma({"idx": int}, budget=30, bounds="every index of a 5-entry string pool; a new string is appended to the pool")
def string_pooled(idx):
    assume(0 <= idx <= 5)
    pool = ["UTC", "GMT", "CET", "a", ""]
    want = pool[idx] if idx < 5 else "new"
    s, w = W(pool)
    w.write_string(want)
    return R(s, pool).read_string() == want and done(s) and (idx < 5) == (len(pool) == 5)


CODEPOINTS = (0x00, 0x41, 0x7F, 0x80, 0xE7, 0x7FF, 0x800, 0xFFFD, 0x10000)   # 1-, 2-, 3- and 4-byte UTF-8 forms and their edges


@lemma({"i0": int, "i1": int, "ln": int}, budget=120,
       bounds="inline (pool-less) strings of length <= 2 over 9 representative code points spanning the 1/2/3/4-byte UTF-8 forms "
              "(the UTF-8 codec is a C boundary: code points are chosen by forking, not solved for)")
def string_inline(i0, i1, ln):
    assume(0 <= ln <= 2)
    assume(0 <= i0 < len(CODEPOINTS))
    assume(0 <= i1 < len(CODEPOINTS))
    text = "".join(chr(CODEPOINTS[int(i)]) for i in (i0, i1)[:int(ln)])
    import io
    out = io.BytesIO()
    w = _DateTimeZoneWriter._ctor(out, None)
    w.write_string(text)
    w.write_byte(0x55)                      # sentinel: the reader must stop exactly where the string ends
    r = _DateTimeZoneReader._ctor(io.BytesIO(out.getvalue()), None)
    return r.read_string() == text and r.read_byte() == 0x55 and not r.has_more_data


@lemma({"mode": int, "month": int, "dom": int, "dow": int, "adv": bool, "addday": bool, "ms": int}, params=["all-fields"],
       budget=120, per_path=30,
       bounds="every _ZoneYearOffset: mode 0..2, month 1..12, day-of-month +-1..31, day-of-week 0..7, both flags, time of day in whole "
              "ms; primitives (count, signed count, milliseconds) as abstract channels whose contracts are the primitive lemmas")
def yearoffset_rt(P):
    install_channels("millis", "count", "signed")

    def h(mode, month, dom, dow, adv, addday, ms):
        del CHAN[:]
        assume(0 <= mode <= 2)
        assume(1 <= month <= 12)
        assume(-31 <= dom <= 31)
        assume(dom != 0)
        assume(0 <= dow <= 7)
        assume(0 <= ms < MPD)
        yo = _ZoneYearOffset._ctor(_TransitionMode(mode), month, dom, dow, adv, LocalTime.from_milliseconds_since_midnight(ms), addday)
        s, w = W()
        yo._write(w)
        back = _ZoneYearOffset.read(R(s))
        return back == yo and done(s) and not CHAN and back.time_of_day.nanosecond_of_day == ms * 10 ** 6 and int(back.mode) == mode
    return h


@lemma(premise=True, params=["bundled", "tests/test_data/Tzdb2013bFromNodaTime1.1.nzd"], budget=600)
def premise_reencode(P):
    """Finite data replay (no quantifier left): every zone of the bundled database re-encodes to the bytes it was decoded from."""
    import io
    from pyoda_time.time_zones._tzdb_date_time_zone_source import TzdbDateTimeZoneSource
    from pyoda_time.time_zones.io._tzdb_stream_data import _TzdbStreamData
    if P == "bundled":
        src = TzdbDateTimeZoneSource.default
    else:
        import os
        from symx import env
        with open(os.path.join(env.REPO, P), "rb") as f:
            src = TzdbDateTimeZoneSource.from_stream(f)
    data = src._TzdbDateTimeZoneSource__source if hasattr(src, "_TzdbDateTimeZoneSource__source") else None
    if data is None:
        return True, "source data not reachable (skipped)"
    bad = []
    n = 0
    skipped = 0
    fields = data._TzdbStreamData__zone_fields
    pool = data._TzdbStreamData__string_pool
    for zid, field in fields.items():
        raw = bytes(field._TzdbStreamField__data)
        zone = data.create_zone(zid, zid)
        out = io.BytesIO()
        w = _DateTimeZoneWriter._ctor(out, list(pool))
        w.write_string(zid)
        from pyoda_time.time_zones._fixed_date_time_zone import _FixedDateTimeZone
        from pyoda_time.time_zones._cached_date_time_zone import _CachedDateTimeZone
        z = zone._time_zone if isinstance(zone, _CachedDateTimeZone) else zone
        if isinstance(z, _FixedDateTimeZone):
            skipped += 1            # the port has no writer for fixed zones; the property speaks of rule-based zones
            continue
        w.write_byte(2)
        z._write(w)
        n += 1
        if out.getvalue() != raw:
            bad.append(zid)
    return (not bad), (f"{n} rule-based zones re-encoded byte-identically ({skipped} fixed zones skipped)" if not bad else f"{len(bad)} of {n} zones differ, e.g. {bad[:5]}")


@lemma({"v": int}, params=[16, 32, 64], budget=60,
       bounds="16/32: any int |v| <= 2**70 is stored modulo 2**width (big-endian) and read back as that residue; "
              "64: every int64, over the 32-bit channel abstracted by the [32] contract")
def fixed_width_rt(P):
    if P == 64:
        from crosshair.core import register_patch
        chan = []

        def w32(self, value):
            chan.append(value % 2 ** 32)

        def r32(self):
            return chan.pop(0)
        register_patch(_DateTimeZoneWriter._DateTimeZoneWriter__write_int32, w32)
        register_patch(_DateTimeZoneReader._DateTimeZoneReader__read_int32, r32)
        stubs.STUBS_IN_FORCE.append("abstraction:32-bit channel (contract = fixed_width_rt[32])")

    def h(v):
        s, w = W()
        r = R(s)
        if P == 16:
            assume(-2 ** 70 <= v <= 2 ** 70)
            w._DateTimeZoneWriter__write_int16(v)
            return r._DateTimeZoneReader__read_int16() == v % 2 ** 16 and done(s) and len(s.buf) == 2
        if P == 32:
            assume(-2 ** 70 <= v <= 2 ** 70)
            w._DateTimeZoneWriter__write_int32(v)
            return r._DateTimeZoneReader__read_int32() == v % 2 ** 32 and done(s) and len(s.buf) == 4
        assume(-2 ** 63 <= v < 2 ** 63)
        del chan[:]
        w._DateTimeZoneWriter__write_int64(v)
        return r._DateTimeZoneReader__read_int64() == v and not chan
    return h


# ------------------------------------------------------------------ composites: recurrence, alternating map, dictionary, precalculated zone
from pyoda_time.time_zones._zone_recurrence import _ZoneRecurrence  # noqa: E402
from pyoda_time.time_zones._standard_daylight_alternating_map import _StandardDaylightAlternatingMap  # noqa: E402

INT_MIN, INT_MAX = -2 ** 31, 2 ** 31 - 1
POOL5 = ["LMT", "GMT", "BST", "CET", "CEST"]


def _rule(month, dom, dow, adv, ms):
    assume(1 <= month <= 12)
    assume(-31 <= dom <= 31)
    assume(dom != 0)
    assume(0 <= dow <= 7)
    assume(0 <= ms < MPD)
    return _ZoneYearOffset._ctor(_TransitionMode.WALL, month, dom, dow, adv, LocalTime.from_milliseconds_since_midnight(ms), False)


@lemma({"sav": int, "month": int, "dom": int, "dow": int, "adv": bool, "ms": int, "fy": int, "ty": int}, params=["infinite", "finite"], budget=120, per_path=30,
       bounds="every _ZoneRecurrence the writer accepts: savings in +-18h; 'infinite': from_year INT_MIN, to_year INT_MAX, any rule (month, day, "
              "weekday, advance flag, time of day); 'finite': from_year in [-9998, 9999], to_year in [max(from_year, 0), 9999], a fixed rule (1 March "
              "00:00): write then read returns an equal recurrence and consumes exactly what was written (primitives as channels).  from_year "
              "in [-9998, 0] is written as 0 and read back as INT_MIN: listed as a known finding")
def recurrence_rt(P):
    install_channels("millis", "count", "signed")
    if P == "finite":
        from props import calsetup as cs
        from props import ymdrecord
        cs.prepare("ISO")
        ymdrecord.install()

    def h(sav, month, dom, dow, adv, ms, fy, ty):
        del CHAN[:]
        assume(-64800 <= sav <= 64800)
        if P == "infinite":
            assume(fy == INT_MIN)
            assume(ty == INT_MAX)
            rule = _rule(month, dom, dow, adv, ms)
        else:
            assume(-9998 <= fy <= 9999)
            assume(max(fy, 0) <= ty <= 9999)
            rule = _ZoneYearOffset._ctor(_TransitionMode.WALL, 3, 1, 0, False, LocalTime(0, 0), False)
        rec = _ZoneRecurrence("BST", Offset.from_seconds(sav), rule, fy, ty)
        s, w = W(list(POOL5))
        rec._write(w)
        back = _ZoneRecurrence.read(R(s, list(POOL5)))
        return (back.equals(rec) and back.from_year == fy and back.to_year == ty and back.savings.seconds == sav and back.name == "BST"
                and done(s) and not CHAN)
    return h


@lemma({"std": int, "sav": int, "m1": int, "d1": int, "w1": int, "a1": bool, "t1": int, "m2": int, "d2": int, "w2": int, "a2": bool, "t2": int},
       params=["all-maps"], budget=120, per_path=30,
       bounds="every _StandardDaylightAlternatingMap: standard offset in +-18h, non-zero savings with standard + savings in +-18h, two arbitrary "
              "yearly rules: write then read returns an equal map (standard offset, both names, both rules, savings) and consumes exactly what was written")
def altmap_rt(P):
    install_channels("millis", "count", "signed")

    def h(std, sav, m1, d1, w1, a1, t1, m2, d2, w2, a2, t2):
        del CHAN[:]
        assume(-64800 <= std <= 64800)
        assume(-64800 <= sav <= 64800)
        assume(sav != 0)
        assume(-64800 <= std + sav <= 64800)
        r_std = _ZoneRecurrence("GMT", Offset.zero, _rule(m1, d1, w1, a1, t1), INT_MIN, INT_MAX)
        r_dst = _ZoneRecurrence("BST", Offset.from_seconds(sav), _rule(m2, d2, w2, a2, t2), INT_MIN, INT_MAX)
        amap = _StandardDaylightAlternatingMap._ctor(Offset.from_seconds(std), r_std, r_dst)
        s, w = W(list(POOL5))
        amap._write(w)
        back = _StandardDaylightAlternatingMap._read(R(s, list(POOL5)))
        b_std, b_dst = back._StandardDaylightAlternatingMap__standard_recurrence, back._StandardDaylightAlternatingMap__dst_recurrence
        return (back.equals(amap) and back._StandardDaylightAlternatingMap__standard_offset.seconds == std and b_dst.savings.seconds == sav
                and b_std.name == "GMT" and b_dst.name == "BST" and b_std.year_offset == r_std.year_offset and b_dst.year_offset == r_dst.year_offset
                and done(s) and not CHAN)
    return h


@lemma({"k0": int, "v0": int, "k1": int, "v1": int, "n": int}, budget=240,
       bounds="every dictionary of 0..2 entries whose keys and values are any of 5 pooled strings (distinct keys): write then read returns an equal dictionary")
def dictionary_rt(k0, v0, k1, v1, n):
    for x in (k0, v0, k1, v1):
        assume(0 <= x < 5)
    assume(0 <= n <= 2)
    assume(k0 != k1)
    items = [(POOL5[int(k0)], POOL5[int(v0)]), (POOL5[int(k1)], POOL5[int(v1)])][:int(n)]
    d = dict(items)
    s, w = W(list(POOL5))
    w.write_dictionary(d)
    back = R(s, list(POOL5)).read_dictionary()
    return back == d and list(back.items()) == items and done(s)


@lemma({"d1": int, "n1": int, "d2": int, "n2": int, "o0": int, "o1": int, "o2": int, "s1": int}, params=["no-tail", "tail"], budget=200, per_path=60,
       bounds="every _PrecalculatedDateTimeZone with three periods (start of time -> t1 -> t2 -> end of time / tail start; the transition instants "
              "are fixed and travel through the transition channel, whose contract covers every instant), any wall offsets in +-18h, any savings on the middle period, with and without a (fixed) recurring tail: "
              "write then read returns the same periods (names, bounds, offsets, savings) and tail, consuming exactly what was written")
def precalc_rt(P):
    from pyoda_time.time_zones import ZoneInterval
    from pyoda_time.time_zones._precalculated_date_time_zone import _PrecalculatedDateTimeZone
    install_channels("transition", "millis", "count", "signed")
    tail = None
    if P == "tail":
        r_std = _ZoneRecurrence("GMT", Offset.zero, _ZoneYearOffset._ctor(_TransitionMode.UTC, 10, -1, 7, False, LocalTime(1, 0), False), INT_MIN, INT_MAX)
        r_dst = _ZoneRecurrence("BST", Offset.from_seconds(3600), _ZoneYearOffset._ctor(_TransitionMode.UTC, 3, -1, 7, False, LocalTime(1, 0), False), INT_MIN, INT_MAX)
        tail = _StandardDaylightAlternatingMap._ctor(Offset.zero, r_std, r_dst)

    def h(d1, n1, d2, n2, o0, o1, o2, s1):
        del CHAN[:]
        # the transition instants travel through the transition channel (opaque to the rest of the codec): two fixed instants suffice
        assume(d1 == -25567)
        assume(n1 == 0)
        assume(d2 == 19700)                # 2023-12-09: standard time under the fixed tail's rule
        assume(n2 == 0)
        t1, t2 = _inst(-25567, 0), _inst(19700, 0)
        for o in (o0, o1, o2):
            assume(-64800 <= o <= 64800)
        assume(-64800 <= s1 <= 64800)
        if P == "tail":
            assume(o2 == 0)                # the tail continues the last period seamlessly
        ivs = [ZoneInterval(name="LMT", start=None, end=t1, wall_offset=Offset.from_seconds(o0), savings=Offset.zero),
               ZoneInterval(name="BST", start=t1, end=t2, wall_offset=Offset.from_seconds(o1), savings=Offset.from_seconds(s1)),
               ZoneInterval(name="GMT", start=t2, end=None if P == "no-tail" else _inst(19800, 0), wall_offset=Offset.from_seconds(o2), savings=Offset.zero)]
        if (o0, 0) == (o1, s1) or (o1, s1) == (o2, 0):
            pass                             # (adjacent periods may coincide in offsets; names differ)
        zone = _PrecalculatedDateTimeZone("Test/Zone", ivs, tail)
        s, w = W(list(POOL5))
        zone._write(w)
        back = _PrecalculatedDateTimeZone._read(R(s, list(POOL5)), "Test/Zone")
        got = back._PrecalculatedDateTimeZone__periods
        if len(got) != 3 or not done(s) or CHAN:
            return False
        for a, b in zip(got, ivs):
            if not (a.name == b.name and a._raw_start == b._raw_start and a._raw_end == b._raw_end
                    and a.wall_offset.seconds == b.wall_offset.seconds and a.savings.seconds == b.savings.seconds):
                return False
        bt = back._PrecalculatedDateTimeZone__tail_zone
        return (bt is None) if tail is None else (bt is not None and bt.equals(tail))
    return h
