"""C15 — conversions to and from Python's datetime types are exact and round-trip.

timedelta / time go through CrossHair's symbolic standard-library models.  date / datetime are modelled BY CONTRACT through a stub
`datetime` namespace injected into the repository modules that use it (a date is its proleptic-Gregorian ordinal in
[1, 3652059]; a datetime adds a microsecond-of-day; subtraction yields day/second/microsecond differences; results outside the
range raise OverflowError).  That ISO dates agree with that ordinal line is C02."""
import datetime as real_datetime

from symx import stubs
from symx.driver import assume
from symx.lemma import lemma

stubs.standard()

from props import daycal  # noqa: E402
from pyoda_time import Duration, LocalDate, LocalDateTime, LocalTime, Offset, PyodaConstants  # noqa: E402

NPD = PyodaConstants.NANOSECONDS_PER_DAY
TD_MIN_US = -999999999 * 86400 * 10 ** 6
TD_MAX_US = (999999999 * 86400 + 86399) * 10 ** 6 + 999999
EPOCH_ORD = 719163                 # 1970-01-01
MAX_ORD = 3652059                  # 9999-12-31


def _td_us(td):
    return (td.days * 86400 + td.seconds) * 10 ** 6 + td.microseconds


def trunc(a, b):
    q = abs(a) // abs(b)
    return q if (a >= 0) == (b >= 0) else -q


# ------------------------------------------------------------------------------------------------ timedelta
@lemma({"days": int, "secs": int, "us": int}, budget=120, per_path=30,
       bounds="every timedelta (|days| <= 999999999; seconds 0..86399; microseconds 0..999999, i.e. normalised form): "
              "Duration.from_timedelta is exact and to_timedelta returns the original")
def timedelta_to_duration_roundtrip(days, secs, us):
    assume(-999999999 <= days <= 999999999)          # timedelta's own range (inside Duration's +-2**30 days)
    assume(0 <= secs < 86400)
    assume(0 <= us < 10 ** 6)
    td = real_datetime.timedelta(days=days, seconds=secs, microseconds=us)
    d = Duration.from_timedelta(td)
    total_us = (days * 86400 + secs) * 10 ** 6 + us
    back = d.to_timedelta()
    return d.to_nanoseconds() == total_us * 1000 and _td_us(back) == total_us and back == td


@lemma({"d": int, "n": int}, budget=120, per_path=30,
       bounds="every Duration: to_timedelta is the value truncated TOWARD ZERO to microseconds, OverflowError exactly when that does not fit a timedelta")
def duration_to_timedelta_truncates(d, n):
    assume(Duration._MIN_DAYS <= d <= Duration._MAX_DAYS)
    assume(0 <= n < NPD)
    dur = Duration._ctor(days=d, nano_of_day=n)
    total = d * NPD + n
    want = trunc(total, 1000)
    fits = TD_MIN_US <= want <= TD_MAX_US
    try:
        td = dur.to_timedelta()
    except OverflowError:
        return not fits                 # Duration's range (+-2**30 days) exceeds timedelta's (+-999999999 days): raises, never mis-converts
    return fits and _td_us(td) == want


@lemma(premise=True, params=["grid"], budget=120)
def premise_offset_timedelta(P):
    """Offset.from_timedelta goes through float seconds by design (floats are outside the solver's claims): checked concretely for EVERY
    whole second in +-18h combined with sub-second parts {0, 1, 499999, 999999} us and both out-of-range neighbours (labelled premise)."""
    bad = 0
    first = None
    for sec in range(-64801, 64802):
        for us in (0, 1, 499999, 999999):
            td = real_datetime.timedelta(seconds=sec, microseconds=us)
            total_us = sec * 10 ** 6 + us
            want = trunc(total_us, 10 ** 6)
            try:
                o = Offset.from_timedelta(td)
                ok = -64800 <= want <= 64800 and o.seconds == want and o.to_timedelta() == real_datetime.timedelta(seconds=want)
            except ValueError:
                ok = abs(total_us) > 64800 * 10 ** 6
            if not ok:
                bad += 1
                first = first or (sec, us)
    return bad == 0, (f"{bad} mismatches, first {first}" if bad else "518,408 timedeltas checked")


# ------------------------------------------------------------------------------------------------ timedelta
@lemma({"days": int, "secs": int, "us": int}, budget=120, per_path=30,
       bounds="every timedelta (|days| <= 999999999; seconds 0..86399; microseconds 0..999999, i.e. normalised form): "
              "Duration.from_timedelta is exact and to_timedelta returns the original")
def timedelta_to_duration_roundtrip(days, secs, us):
    assume(-999999999 <= days <= 999999999)          # timedelta's own range (inside Duration's +-2**30 days)
    assume(0 <= secs < 86400)
    assume(0 <= us < 10 ** 6)
    td = real_datetime.timedelta(days=days, seconds=secs, microseconds=us)
    d = Duration.from_timedelta(td)
    total_us = (days * 86400 + secs) * 10 ** 6 + us
    back = d.to_timedelta()
    return d.to_nanoseconds() == total_us * 1000 and _td_us(back) == total_us and back == td


@lemma({"d": int, "n": int}, budget=120, per_path=30,
       bounds="every Duration: to_timedelta is the value truncated TOWARD ZERO to microseconds, OverflowError exactly when that does not fit a timedelta")
def duration_to_timedelta_truncates(d, n):
    assume(Duration._MIN_DAYS <= d <= Duration._MAX_DAYS)
    assume(0 <= n < NPD)
    dur = Duration._ctor(days=d, nano_of_day=n)
    total = d * NPD + n
    want = trunc(total, 1000)
    fits = TD_MIN_US <= want <= TD_MAX_US
    try:
        td = dur.to_timedelta()
    except OverflowError:
        return not fits                 # Duration's range (+-2**30 days) exceeds timedelta's (+-999999999 days): raises, never mis-converts
    return fits and _td_us(td) == want


# ------------------------------------------------------------------------------------------------ time
@lemma({"hh": int, "mm": int, "ss": int, "us": int}, budget=60, bounds="every datetime.time (naive): LocalTime.from_time is exact and to_time returns the original")
def time_roundtrip(hh, mm, ss, us):
    assume(0 <= hh < 24)
    assume(0 <= mm < 60)
    assume(0 <= ss < 60)
    assume(0 <= us < 10 ** 6)
    t = real_datetime.time(hh, mm, ss, us)
    lt = LocalTime.from_time(t)
    back = lt.to_time()
    return back == t and lt.nanosecond_of_day == ((hh * 60 + mm) * 60 + ss) * 10 ** 9 + us * 1000


@lemma({"n": int}, budget=60, bounds="every LocalTime: to_time truncates toward the start of the day to microseconds")
def localtime_to_time_truncates(n):
    assume(0 <= n < NPD)
    t = LocalTime._ctor(nanoseconds=n).to_time()
    return (t.hour == n // (3600 * 10 ** 9) and t.minute == (n // (60 * 10 ** 9)) % 60 and t.second == (n // 10 ** 9) % 60
            and t.microsecond == (n // 1000) % 10 ** 6)


# ------------------------------------------------------------------------------------------------ date / datetime by contract
class STimedelta:
    def __init__(self, days=0, seconds=0, microseconds=0):
        tot = (days * 86400 + seconds) * 10 ** 6 + microseconds
        self.days = tot // (86400 * 10 ** 6)
        rem = tot - self.days * 86400 * 10 ** 6
        self.seconds = rem // 10 ** 6
        self.microseconds = rem - self.seconds * 10 ** 6


class SDate:
    """datetime.date by contract: a proleptic-Gregorian ordinal in [1, 3652059]."""

    def __init__(self, *a, ordinal=None):
        if ordinal is None:
            if tuple(a) != (1970, 1, 1):
                raise AssertionError("stub date: only the epoch literal is constructed by the code under test")
            ordinal = EPOCH_ORD
        if not (1 <= ordinal <= MAX_ORD):
            raise OverflowError("date value out of range")
        self.ordinal = ordinal

    def __sub__(self, o):
        return STimedelta(days=self.ordinal - o.ordinal)

    def __add__(self, td):
        return SDate(ordinal=self.ordinal + td.days)


class SDateTime:
    """datetime.datetime (naive) by contract: (ordinal, microsecond of day)."""
    min = None

    def __init__(self, *a, ordinal=None, us=0, fields=None, **kw):
        self.tzinfo = None
        self.fields = fields
        if ordinal is None and (a or kw):
            if tuple(a) == (1, 1, 1) and not kw:
                ordinal, us = 1, 0
            else:
                # constructed from calendar fields by the code under test: keep the fields (field -> ordinal is C02's subject)
                self.fields = dict(kw)
                if a:
                    self.fields.update(dict(zip(("year", "month", "day", "hour", "minute", "second", "microsecond"), a)))
                self.ordinal, self.us = None, None
                return
        if not (1 <= ordinal <= MAX_ORD):
            raise OverflowError("date value out of range")
        self.ordinal, self.us = ordinal, us

    def __sub__(self, o):
        return STimedelta(days=self.ordinal - o.ordinal, microseconds=self.us - o.us)

    def replace(self, tzinfo=None):
        r = SDateTime(ordinal=self.ordinal, us=self.us)
        r.tzinfo = tzinfo
        return r

    def astimezone(self, tz):
        """the contract of datetime.astimezone(UTC): the same instant expressed in UTC, OverflowError outside [MINYEAR, MAXYEAR]"""
        off = self.tzinfo.utcoffset(self)
        tot = self.ordinal * 86400 * 10 ** 6 + self.us - ((off.days * 86400 + off.seconds) * 10 ** 6 + off.microseconds)
        r = SDateTime(ordinal=tot // (86400 * 10 ** 6), us=tot % (86400 * 10 ** 6))      # raises OverflowError outside the range
        r.tzinfo = tz
        return r


class STz:
    """datetime.timezone(timedelta(seconds=off)) by contract"""

    def __init__(self, off):
        self.off = off

    def utcoffset(self, dt):
        return STimedelta(seconds=self.off)


class _SMin:
    year = 1


SDateTime.min = _SMin()


class _StubDatetimeModule:
    date = SDate
    datetime = SDateTime
    timedelta = STimedelta
    UTC = real_datetime.UTC
    timezone = real_datetime.timezone
    time = real_datetime.time
    tzinfo = real_datetime.tzinfo
    MINYEAR = real_datetime.MINYEAR
    MAXYEAR = real_datetime.MAXYEAR

    def __getattr__(self, name):          # (class attribute access does not come here; kept for instances)
        return getattr(real_datetime, name)


def _inject():
    import pyoda_time._local_date as m1
    import pyoda_time._local_date_time as m2
    import pyoda_time.utility._csharp_compatibility as m3
    import pyoda_time._instant as m4
    for m in (m1, m2, m3, m4):
        m.datetime = _StubDatetimeModule
    stubs.STUBS_IN_FORCE.append("contract:datetime.date/datetime/timedelta modelled by ordinal + microsecond-of-day in _local_date, _local_date_time, "
                                "_csharp_compatibility (CPython agreement of the model is validated on every witness concretely)")


@lemma({"o": int}, params=["stub"], budget=60,
       bounds="every date ordinal in [1, 3652059] (datetime.date.min .. max): LocalDate.from_date lands on day number ordinal - 719163 "
              "(probe on the ISO day -> date conversion, which is C01/C02's subject)")
def date_to_localdate(P):
    _inject()
    from crosshair.core import register_patch
    from pyoda_time.calendars._gregorian_year_month_day_calculator import _GregorianYearMonthDayCalculator as G
    seen = []
    real = G._get_gregorian_year_month_day_calendar_from_days_since_epoch.__func__

    def probe(cls, days):
        seen.append(days)
        return real(cls, 0)
    G._get_gregorian_year_month_day_calendar_from_days_since_epoch = classmethod(probe)

    def h(o):
        del seen[:]
        assume(1 <= o <= MAX_ORD)
        LocalDate.from_date(SDate(ordinal=o))
        return len(seen) == 1 and seen[0] == o - EPOCH_ORD
    return h


@lemma({"days": int}, params=["stub"], budget=60,
       bounds="every LocalDate (any calendar: DayCalendar day number |d| <= 5*10**6): to_date is ordinal 719163 + day number, OverflowError outside datetime.date's range")
def localdate_to_date(P):
    _inject()
    host = daycal.host("Coptic")

    def h(days):
        d = daycal.date(host, days)
        want = EPOCH_ORD + days
        try:
            r = d.to_date()
        except OverflowError:
            return not (1 <= want <= MAX_ORD)
        return 1 <= want <= MAX_ORD and r.ordinal == want
    return h


@lemma({"o": int, "us": int}, params=["stub"], budget=120, per_path=30,
       bounds="every naive datetime (ordinal in [1, 3652059], microsecond of day): LocalDateTime.from_naive_datetime has day number "
              "ordinal - 719163 and nanosecond-of-day = microseconds * 1000 (DayCalendar target calendar)")
def datetime_to_localdatetime(P):
    _inject()
    host = daycal.host("Coptic")

    def h(o, us):
        assume(1 <= o <= MAX_ORD)
        assume(0 <= us < 86400 * 10 ** 6)
        assume(host._min_days <= o - EPOCH_ORD <= host._max_days)
        ldt = LocalDateTime.from_naive_datetime(SDateTime(ordinal=o, us=us), host)
        return daycal.days_of(ldt.date) == o - EPOCH_ORD and ldt.nanosecond_of_day == us * 1000
    return h


@lemma({"year": int, "month": int, "day": int, "n": int}, params=["stub"], budget=120, per_path=30,
       bounds="every Gregorian-field LocalDateTime with year in [-9998, 9999] (month 1..12, day 1..31): to_naive_datetime passes exactly "
              "its Gregorian fields with the time truncated toward the start of the day to microseconds, raises RuntimeError exactly for years "
              "before 1 (the calendar conversion to Gregorian is C01's with_calendar round trip: LocalDateTime.with_calendar is the identity here)")
def localdatetime_to_datetime(P):
    _inject()
    from props import ymdrecord
    from pyoda_time import CalendarSystem
    ymdrecord.install()
    LocalDateTime.with_calendar = lambda self, calendar: self
    stubs.STUBS_IN_FORCE.append("contract:LocalDateTime.with_calendar = identity on an already-Gregorian value (this lemma only)")
    greg = CalendarSystem.gregorian

    def h(year, month, day, n):
        assume(-9998 <= year <= 9999)
        assume(1 <= month <= 12)
        assume(1 <= day <= 31)
        assume(0 <= n < NPD)
        date = LocalDate._ctor(year_month_day_calendar=ymdrecord.YMDC(year, month, day, greg._ordinal))
        ldt = LocalDateTime._ctor(local_date=date, local_time=LocalTime._ctor(nanoseconds=n))
        try:
            r = ldt.to_naive_datetime()
        except RuntimeError:
            return year < 1
        f = r.fields
        return (year >= 1 and f["year"] == year and f["month"] == month and f["day"] == day
                and f["hour"] == n // (3600 * 10 ** 9) and f["minute"] == (n // (60 * 10 ** 9)) % 60 and f["second"] == (n // 10 ** 9) % 60
                and f["microsecond"] == (n // 1000) % 10 ** 6)
    return h


@lemma(premise=True, params=["cpython"], budget=120)
def premise_stub_matches_cpython(P):
    """The contract model of date/datetime agrees with CPython on the range ends and a grid of values (auxiliary, concrete), and the real
    (unstubbed) conversions round-trip datetime.date.min/max, datetime.min/max and values around the epoch."""
    import datetime as dt
    bad = []
    for o in (1, 2, 365, 366, EPOCH_ORD - 1, EPOCH_ORD, EPOCH_ORD + 1, MAX_ORD - 1, MAX_ORD):
        d = dt.date.fromordinal(o)
        if (d - dt.date(1970, 1, 1)).days != o - EPOCH_ORD:
            bad.append(("ordinal", o))
        if LocalDate.from_date(d).to_date() != d:
            bad.append(("date roundtrip", o))
    for x in (dt.datetime.min, dt.datetime.max, dt.datetime(1970, 1, 1), dt.datetime(1969, 12, 31, 23, 59, 59, 999999),
              dt.datetime(2024, 2, 29, 12, 34, 56, 789012), dt.datetime(1, 12, 31, 23, 59, 59)):
        try:
            if LocalDateTime.from_naive_datetime(x).to_naive_datetime() != x:
                bad.append(("datetime roundtrip", str(x)))
        except Exception as e:  # noqa: BLE001
            bad.append(("datetime roundtrip", str(x), type(e).__name__))
    try:
        dt.date.fromordinal(MAX_ORD + 1)
        bad.append("no overflow")
    except (ValueError, OverflowError):
        pass
    return (not bad), (f"mismatches: {bad}" if bad else "model and real conversions agree with CPython at range ends and grid points")


@lemma({"o": int, "us": int, "off": int}, params=["stub"], budget=120, per_path=40,
       bounds="every aware datetime (any ordinal 1..3652059, any microsecond of day, any UTC offset strictly inside +-24h, through the stdlib "
              "contract model): Instant.from_aware_datetime is exactly local value - offset, in nanoseconds from the Unix epoch - including the "
              "first hours of the datetime range, whose UTC equivalent lies in year 0; a UTC equivalent in year 10000 is beyond Instant's range and is refused")
def instant_from_aware_datetime(P):
    _inject()
    from pyoda_time import Instant

    def h(o, us, off):
        assume(1 <= o <= MAX_ORD)
        assume(0 <= us < 86400 * 10 ** 6)
        assume(-86400 < off < 86400)
        dt = SDateTime(ordinal=o, us=us)
        dt.tzinfo = STz(off)
        want = ((o - EPOCH_ORD) * 86400 * 10 ** 6 + us - off * 10 ** 6) * 1000
        lo = Instant._MIN_DAYS * 86400 * 10 ** 9
        hi = (Instant._MAX_DAYS + 1) * 86400 * 10 ** 9 - 1
        try:
            t = Instant.from_aware_datetime(dt)._time_since_epoch
        except (OverflowError, ValueError):
            return not lo <= want <= hi           # only an instant beyond Instant's own range (year 10000) may be refused
        return lo <= want <= hi and t._floor_days * 86400 * 10 ** 9 + t._nanosecond_of_floor_day == want
    return h
