"""C16 — week-year rules and weekday navigation."""
from symx import stubs
from symx.driver import assume
from symx.lemma import lemma

stubs.standard()

from crosshair.core import register_patch  # noqa: E402

from pyoda_time import CalendarSystem, DateAdjusters, IsoDayOfWeek, LocalDate  # noqa: E402
from pyoda_time.calendars._simple_week_year_rule import _SimpleWeekYearRule  # noqa: E402

Y = 2000   # the abstract calendar's "current" year; years Y-2 .. Y+3 have symbolic lengths


class _Unmodelled:
    """an attribute the abstract calendar does not model (months, days of month): the path is UNKNOWN, never a violation"""

    def __getattr__(self, name):
        from crosshair.util import CrosshairUnsupported
        if name.startswith("__"):
            raise AttributeError(name)
        raise CrosshairUnsupported(f"abstract calendar record has no {name!r}: outside the SymCalendar abstraction")


class AYMD(_Unmodelled):
    def __init__(self, y, days):
        self._year, self.days = y, days

    def _with_calendar(self, cal):
        return AYMDC(self._year, self.days, cal)


class AYMDC(_Unmodelled):
    def __init__(self, y, days, cal):
        self._year, self.days, self.cal = y, days, cal

    def _to_year_month_day(self):
        return AYMD(self._year, self.days)

    @property
    def _calendar_ordinal(self):
        return self.cal


class ADate(_Unmodelled):
    def __init__(self, y, days, cal):
        self._year_month_day = AYMD(y, days)
        self.calendar = cal
        self.year = y


class SymCalc:
    """Abstract calculator: arbitrary start S of year Y and arbitrary lengths of the five years Y-2 .. Y+2."""

    def __init__(self, S, lens):
        self.S, self.lens = S, lens

    def _get_days_in_year(self, y):
        k = y - Y
        if -2 <= k <= 2:
            return self.lens[int(k) + 2]
        raise AssertionError("abstract calendar window")

    def _get_start_of_year_in_days(self, y):
        k = y - Y
        L = self.lens
        if k == -2:
            return self.S - L[1] - L[0]
        if k == -1:
            return self.S - L[1]
        if k == 0:
            return self.S
        if k == 1:
            return self.S + L[2]
        if k == 2:
            return self.S + L[2] + L[3]
        if k == 3:
            return self.S + L[2] + L[3] + L[4]
        raise AssertionError("abstract calendar window")

    def _get_days_since_epoch(self, ymd):
        return ymd.days

    def year_of(self, d):
        for k in (-2, -1, 0, 1, 2):
            if self._get_start_of_year_in_days(Y + k) <= d < self._get_start_of_year_in_days(Y + k + 1):
                return Y + k
        raise AssertionError("abstract calendar window")

    def _get_year_month_day(self, *, days_since_epoch=None, **kw):
        return AYMD(self.year_of(days_since_epoch), days_since_epoch)


class SymCal:
    def __init__(self, calc, end):
        self._year_month_day_calculator = calc
        if end == "interior":
            self.min_year, self.max_year, self._min_days, self._max_days = -10 ** 6, 10 ** 6, -10 ** 12, 10 ** 12
        elif end == "max":    # Y is the calendar's last year (the calendar covers exactly Y-2 .. Y)
            self.min_year, self.max_year = Y - 2, Y
            self._min_days, self._max_days = calc._get_start_of_year_in_days(Y - 2), calc._get_start_of_year_in_days(Y + 1) - 1
        else:                 # Y is the calendar's first year (the calendar covers exactly Y .. Y+2)
            self.min_year, self.max_year = Y, Y + 2
            self._min_days, self._max_days = calc._get_start_of_year_in_days(Y), calc._get_start_of_year_in_days(Y + 3) - 1


_sym = []


def _install_symcal():
    if _sym:
        return
    _sym.append(1)
    real = CalendarSystem._for_ordinal.__func__

    def _for_ordinal(cls, ordinal):
        return ordinal if isinstance(ordinal, SymCal) else real(cls, ordinal)
    CalendarSystem._for_ordinal = classmethod(_for_ordinal)      # by assignment: active in symbolic runs and concrete replays alike
    stubs.STUBS_IN_FORCE.append("abstraction:SymCalendar (arbitrary year start and year lengths 353..385 for a 5-year window; stub dates carry day numbers); "
                                "contract = C01.yearlen for the real calculators; CalendarSystem._for_ordinal is the identity on the stub")

ARGS = {"min_days": int, "first": int, "S": int, "l0": int, "l1": int, "l2": int, "l3": int, "l4": int, "z": int}


def _rule_and_cal(min_days, first, S, l0, l1, l2, l3, l4, irregular, end):
    assume(1 <= min_days <= 7)
    assume(1 <= first <= 7)
    assume(-5 * 10 ** 6 <= S <= 5 * 10 ** 6)
    for L in (l0, l1, l2, l3, l4):
        assume(353 <= L <= 385)
    if irregular:
        assume(min_days == 1 or min_days == 4 or min_days == 7)
    rule = _SimpleWeekYearRule(min_days, IsoDayOfWeek(first), irregular)
    calc = SymCalc(S, [l0, l1, l2, l3, l4])
    return rule, calc, SymCal(calc, end)


def _weekyear(irregular, end):
    def h(min_days, first, S, l0, l1, l2, l3, l4, z):
        rule, calc, cal = _rule_and_cal(min_days, first, S, l0, l1, l2, l3, l4, irregular, end)
        assume(0 <= z < l2)                      # any day of calendar year Y
        days = S + z
        date = ADate(Y, days, cal)
        wy = rule.get_week_year(date)
        w = rule.get_week_of_week_year(date)
        n = rule.get_weeks_in_week_year(wy, cal)
        dow = (days + 3) % 7 + 1
        back = rule.get_local_date(wy, w, IsoDayOfWeek(dow), cal)
        bdays = back._LocalDate__year_month_day_calendar.days
        return Y - 1 <= wy <= Y + 1 and 1 <= w <= n and bdays == days
    return h


def _wy_params(tier, seed):
    out = [[k, "interior", m, 0] for k in ("regular", "bcl") for m in ((1, 2, 3, 4, 5, 6, 7) if k == "regular" else (1, 4, 7))]
    ends = [[k, e, m, f] for k in ("regular", "bcl") for e in ("max", "min") for m in ((1, 2, 3, 4, 5, 6, 7) if k == "regular" else (1, 4, 7))
            for f in range(1, 8)]
    if tier == "thorough":
        return out + ends
    n = len(ends)
    return out + [ends[(seed * 31 + i * 23) % n] for i in range(12)]


@lemma(ARGS, params=_wy_params, budget=200, per_path=30,
       bounds="all 49 regular (min_days 1..7 x first day 1..7) or 21 BCL-style rules x an arbitrary calendar (any year start, any lengths "
              "353..385 of 5 adjacent years) x every day of the middle year (interior: partitioned by min_days); 'max'/'min': the middle "
              "year is the calendar's last/first year and its range ends exactly at that year's end/start, every day within 8 days of that end "
              "(partitioned by min_days and first day of week; 12 seeded partitions in quick, all 140 in thorough): (week-year, week, weekday) "
              "converts back to the same day, week within the weeks reported for that week-year, week-year within +-1 of the calendar year")
def weekyear_roundtrip(P):
    _install_symcal()
    kind, end, md, fd = P
    base = _weekyear(kind == "bcl", end)

    def h(**kw):
        assume(kw["min_days"] == md)
        if fd:
            assume(kw["first"] == fd)
        if end == "max":
            assume(kw["z"] >= kw["l2"] - 8)
        elif end == "min":
            assume(kw["z"] <= 7)
        return base(**kw)
    return h


@lemma(ARGS, params=["regular"], budget=200, per_path=30,
       bounds="regular rules x arbitrary calendar x every day z of year Y with z+7 in the same week-year: the week number advances by exactly "
              "one every seven days, and changes exactly on the rule's first day of week")
def weeks_advance(P):
    _install_symcal()

    def h(min_days, first, S, l0, l1, l2, l3, l4, z):
        rule, calc, cal = _rule_and_cal(min_days, first, S, l0, l1, l2, l3, l4, False, "interior")
        assume(0 <= z < l2)
        days = S + z
        d1 = ADate(Y, days, cal)
        d2 = ADate(calc.year_of(days + 7), days + 7, cal)
        d0 = ADate(calc.year_of(days - 1), days - 1, cal)
        ok = True
        if rule.get_week_year(d1) == rule.get_week_year(d2):
            ok = ok and rule.get_week_of_week_year(d2) == rule.get_week_of_week_year(d1) + 1
        if rule.get_week_year(d1) == rule.get_week_year(d0):
            dow = (days + 3) % 7 + 1
            same_week = rule.get_week_of_week_year(d0) == rule.get_week_of_week_year(d1)
            ok = ok and same_week == (dow != first)
        return ok
    return h


@lemma({"S": int, "l0": int, "l1": int, "l2": int, "l3": int, "l4": int}, params=["iso"], budget=120, per_path=30,
       bounds="the ISO rule on an arbitrary calendar: week 1 of week-year Y is the Monday-to-Sunday week containing the year's first "
              "Thursday (equivalently the 4th day of the year); the day before that Monday belongs to week-year Y-1")
def iso8601_definition(P):
    _install_symcal()
    return _iso8601


def _iso8601(S, l0, l1, l2, l3, l4):
    from pyoda_time.calendars import WeekYearRules
    rule = WeekYearRules.iso
    assume(-5 * 10 ** 6 <= S <= 5 * 10 ** 6)
    for L in (l0, l1, l2, l3, l4):
        assume(353 <= L <= 385)
    calc = SymCalc(S, [l0, l1, l2, l3, l4])
    cal = SymCal(calc, "interior")
    jan4 = S + 3
    dow4 = (jan4 + 3) % 7 + 1
    monday = jan4 - (dow4 - 1)
    # the first Thursday of the year lies in the same Monday-based week as the 4th day
    first_thu = S + ((4 - ((S + 3) % 7 + 1)) % 7)
    ok = monday <= first_thu <= monday + 6
    for d in (monday, jan4, monday + 6):
        date = ADate(calc.year_of(d), d, cal)
        ok = ok and rule.get_week_year(date) == Y and rule.get_week_of_week_year(date) == 1
    before = ADate(calc.year_of(monday - 1), monday - 1, cal)
    after = ADate(calc.year_of(monday + 7), monday + 7, cal)
    return ok and rule.get_week_year(before) == Y - 1 and rule.get_week_year(after) == Y and rule.get_week_of_week_year(after) == 2


# ------------------------------------------------------------------------------------------------ weekday navigation (abstract self)
class _AbsDate:
    def __init__(self, dow):
        self._dow = dow
        self.added = 0

    @property
    def day_of_week(self):
        return self._dow

    def plus_days(self, n):
        self.added = n
        return self


@lemma({"cur": int, "target": int}, budget=60,
       bounds="LocalDate.next / previous and the DateAdjusters next/previous/or-same forms for every (current weekday, target weekday): the "
              "step handed to plus_days (C09) is the nearest strictly later/earlier (or same) day with that weekday")
def next_previous(cur, target):
    assume(1 <= cur <= 7)
    assume(1 <= target <= 7)
    t = IsoDayOfWeek(target)
    a = _AbsDate(cur)
    LocalDate.next(a, t)
    n = a.added
    b = _AbsDate(cur)
    LocalDate.previous(b, t)
    p = b.added
    ok = 1 <= n <= 7 and (cur - 1 + n) % 7 + 1 == target and -7 <= p <= -1 and (cur - 1 + p) % 7 + 1 == target

    class _D(_AbsDate):
        def next(self, x):
            return LocalDate.next(self, x)

        def previous(self, x):
            return LocalDate.previous(self, x)
    c = _D(cur)
    DateAdjusters.next_or_same(t)(c)
    d = _D(cur)
    DateAdjusters.previous_or_same(t)(d)
    e = _D(cur)
    DateAdjusters.next(t)(e)
    f = _D(cur)
    DateAdjusters.previous(t)(f)
    ok = ok and 0 <= c.added <= 6 and (cur - 1 + c.added) % 7 + 1 == target and -6 <= d.added <= 0 and (cur - 1 + d.added) % 7 + 1 == target
    return ok and e.added == n and f.added == p


def _nth_params(tier, seed):
    ws = [[a, a + 399] for a in range(1, 1600, 400)] + [[1601, 1899], [2101, 2400]] + [[a, a + 399] for a in range(2401, 9999, 400)]
    if tier == "thorough":
        ws += [[a, a + 24] for a in range(1900, 2100, 25)] + [[2100, 2100]]      # the 1900-2100 month-start table: ~200 s per 25 years
    else:
        ws = [ws[seed % len(ws)]]
    return [w + [m] for w in ws for m in range(1, 13)]


@lemma({"year": int, "month": int, "occ": int, "dow": int}, params=_nth_params, budget=200, per_path=30, thorough_budget=400,
       bounds="from_year_month_week_and_day for every (year in a 400-year window, month = parameter, occurrence 1..5, weekday): the result lies "
              "in that month, has that weekday, is the occ-th such day (day in ((occ-1)*7, occ*7]) or, when the month has no 5th one, the "
              "last; one seeded window x 12 months in quick, every window in thorough")
def nth_weekday(P):
    from props import calsetup as cs
    from props import ymdrecord
    lo, hi, the_month = P
    cal, calc, _a, _b = cs.prepare("ISO")
    ymdrecord.install()

    def h(year, month, occ, dow):
        assume(lo <= year <= min(hi, 9999))
        assume(month == the_month)
        assume(1 <= occ <= 5)
        assume(1 <= dow <= 7)
        r = LocalDate.from_year_month_week_and_day(year, month, occ, IsoDayOfWeek(dow))
        dim = calc._get_days_in_month(year, month)
        ok = r.year == year and r.month == month and 1 <= r.day <= dim and int(r.day_of_week) == dow
        if (occ - 1) * 7 < r.day <= occ * 7:
            return ok
        return ok and occ == 5 and r.day + 7 > dim and 21 < r.day <= 28     # "last" when there is no fifth occurrence
    return h


@lemma(premise=True, params=["range-ends"], budget=300)
def premise_real_calendar_ends(P):
    """Finite data premise (concrete): for every real calendar, every one of the 70 rules and each of the first and last 8 days of the
    calendar's range, (week-year, week, weekday) converts back to the same date and the week lies within the reported weeks."""
    from pyoda_time.calendars import WeekYearRules, CalendarWeekRule
    rules = [("iso", WeekYearRules.iso)]
    for m in range(1, 8):
        for f in range(1, 8):
            rules.append((f"min{m}/first{f}", WeekYearRules.for_min_days_in_first_week(m, IsoDayOfWeek(f))))
    for cw in CalendarWeekRule:
        for f in range(1, 8):
            rules.append((f"bcl{int(cw)}/first{f}", WeekYearRules.from_calendar_week_rule(cw, IsoDayOfWeek(f))))
    bad = []
    n = 0
    for cid in CalendarSystem.ids:
        cal = CalendarSystem.for_id(cid)
        days = list(range(cal._min_days, cal._min_days + 8)) + list(range(cal._max_days - 7, cal._max_days + 1))
        for d in days:
            date = LocalDate._ctor(days_since_epoch=d, calendar=cal)
            for name, rule in rules:
                n += 1
                try:
                    wy, w = rule.get_week_year(date), rule.get_week_of_week_year(date)
                    back = rule.get_local_date(wy, w, date.day_of_week, cal)
                    if back != date or not (1 <= w <= rule.get_weeks_in_week_year(wy, cal)):
                        bad.append((cid, d, name, "mismatch"))
                except Exception as e:  # noqa: BLE001
                    bad.append((cid, d, name, type(e).__name__))
    badi_min = CalendarSystem.badi._min_days
    known = [b for b in bad if b[0] == "Badi" and b[1] < badi_min + 6 and b[3] == "ValueError"]     # the listed region, nothing else
    other = [b for b in bad if b not in known]
    detail = f"{n} (calendar, day, rule) cases; failures outside the known region: {len(other)} {other[:4]}; inside it: {len(known)}"
    return (not other), detail, (["C16-badi-year-1"] if known else [])


# ------------------------------------------------------------------------------------------------ real calendars around the year boundary
def _real_params(tier, seed):
    from props import calsetup as cs
    out = []
    rules = [[4, 1], [1, 7]] if tier == "quick" else [[4, 1], [1, 7], [7, 1], [1, 1], [4, 7]]
    for cid in ("ISO", "Coptic", "Hebrew Scriptural", "Hebrew Civil", "Persian Simple") + (() if tier == "quick" else tuple(cs.pick(cs.ISLAMIC, seed, 2))):
        ws = cs.windows(cid) if cid in cs.WINDOWED else [(None, None)]
        ws = ws if tier == "thorough" and cid in cs.WINDOWED else [ws[(seed * 7 + len(cid)) % len(ws)]]
        for w in ws[: (6 if tier == "thorough" else 1)]:
            for r in rules:
                if cid.startswith("Hebrew"):
                    out += [[cs.P(cid, *w), r[0], r[1], j] for j in range(3)]          # Hebrew: one year per instance (three consecutive years)
                else:
                    out.append([cs.P(cid, *w) if w[0] is not None else cid, r[0], r[1]])
    return out


@lemma({"year": int, "k": int}, params=_real_params, budget=300, per_path=60,
       bounds="REAL calendars (ISO, Coptic, Persian simple, both Hebrew numberings - whose year does not start at month 1; a seeded 180-year "
              "window for the tabulated ones) x regular rules (ISO-like 4/Monday and 1/Sunday in quick) x every date within 10 days either side "
              "of the year starts of a 6-year stretch inside it (Hebrew: of one year per instance, three consecutive years; the weekday of a symbolic year start is a solver wall beyond a few years): the week number lies in 1..weeks-in-week-year and (week-year, week, weekday) maps back to the same date")
def weekyear_real(P):
    from props import calsetup as cs
    from props import ymdrecord
    from pyoda_time import IsoDayOfWeek, LocalDate
    from pyoda_time.calendars import WeekYearRules
    cid, lo, hi = cs.unP(P[0])
    if cid in ("ISO", "Coptic"):
        lo, hi = 1700, 2300
    span = 6                                  # years per instance (the weekday of a symbolic year start is a solver wall beyond a few years)
    y0 = lo + 14 + (P[1] * 37 + P[2] * 11 + len(cid)) % max(1, (hi - lo - 24 - span))
    if len(P) > 3:                            # Hebrew (molad-based year starts): a single year per instance
        y0, span = y0 + P[3], 1
    if cid == "ISO":
        span = 3                              # (the stretch straddles the 1900-2100 month-start table: more paths per year)
    # a small table window around the stretch (a 180-year if-then-else per year function is most of the cost)
    cal, calc, _lo, _hi = cs.prepare(cid, y0 - 3, y0 + span + 3) if cid in cs.WINDOWED else cs.prepare(cid)
    ymdrecord.install()
    rule = WeekYearRules.for_min_days_in_first_week(P[1], IsoDayOfWeek(P[2]))
    before = cs.reset_hebrew_cache if cid.startswith("Hebrew") else None

    def h(year, k):
        assume(y0 <= year < y0 + span)
        assume(-10 <= k <= 10)
        days = calc._get_start_of_year_in_days(year) + k
        date = LocalDate._ctor(days_since_epoch=days, calendar=cal)
        wy = rule.get_week_year(date)
        w = rule.get_week_of_week_year(date)
        if not 1 <= w <= rule.get_weeks_in_week_year(wy, cal):
            return False
        back = rule.get_local_date(wy, w, date.day_of_week, cal)
        return back._days_since_epoch == days
    return h, before
