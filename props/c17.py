"""C17 — ISO patterns interoperate with other ISO-8601 implementations.
Oracle: a reference ISO-8601 extended-format writer (fixed widths, fraction without trailing zeros / exactly nine digits, Z) written
here from the standard; the built-in pattern's text must equal it and the reference text must parse back.  CPython's
isoformat/fromisoformat agreement with the reference is validated concretely on witnesses (auxiliary premise)."""
from symx import stubs
from symx.driver import assume
from symx.lemma import lemma

stubs.standard()
stubs.stub_parse_messages()

from pyoda_time import Instant, LocalDate, LocalTime, Offset, PyodaConstants  # noqa: E402
from pyoda_time.text import InstantPattern, LocalDatePattern, LocalTimePattern, OffsetPattern  # noqa: E402

NS = 10 ** 9
NPD = PyodaConstants.NANOSECONDS_PER_DAY


def ref_date(y, m, d):
    if y < 0:
        return f"-{-y:04}-{m:02}-{d:02}"
    return f"{y:04}-{m:02}-{d:02}"


def ref_fraction(f, nine):
    """'' for zero (short form), '.'+digits without trailing zeros; the long form always has nine digits"""
    digits = f"{f:09}"
    if nine:
        return "." + digits
    if f == 0:
        return ""
    k = 9
    while k > 1 and (f % (10 ** (10 - k))) == 0:
        k -= 1
    return "." + digits[:k]


def ref_time(hh, mi, ss, f, nine=False):
    return f"{hh:02}:{mi:02}:{ss:02}" + ref_fraction(f, nine)


@lemma({"y": int, "m": int, "d": int}, params=[[1, 0], [2, 0], [3, 0]] + [[4, mm] for mm in range(1, 13)] + [[-k, 0] for k in (1, 2, 3, 4)], budget=300,
       thorough_budget=1200, per_path=40,
       bounds="every valid ISO date with a year of the given number of digits in 1..9999 (the domain shared with the standard library), and "
              "beyond it every negative year -1..-9998 by digit count (ISO 8601 expanded form: sign + at least four digits): "
              "LocalDatePattern.iso writes exactly the zero-padded [-]yyyy-mm-dd text and reads that text back to the same date")
def date_iso(P):
    from props import calsetup as cs
    from props import ymdrecord
    cal, calc, _a, _b = cs.prepare("ISO")
    ymdrecord.install()
    pat = LocalDatePattern.iso

    def h(y, m, d):
        if P[0] > 0:
            assume(10 ** (P[0] - 1) <= y < 10 ** P[0])
        else:
            assume(10 ** (-P[0] - 1) <= -y < 10 ** (-P[0]))
            assume(y >= -9998)
        assume(1 <= m <= 12)
        if P[1]:
            assume(m == P[1])                      # four-digit years: one partition per month
        assume(1 <= d <= calc._get_days_in_month(y, m))
        date = LocalDate._ctor(year_month_day_calendar=ymdrecord.YMDC(y, m, d, cal._ordinal))
        ref = ref_date(y, m, d)
        if pat.format(date) != ref:
            return False
        r = pat.parse(ref)
        return r.success and r.value.year == y and r.value.month == m and r.value.day == d
    return h


@lemma({"hh": int, "mi": int, "ss": int, "f": int}, params=lambda tier, seed: [[p, b, 0] for p in ("iso", "long-iso") for b in range(0, 24, 6)],
       budget=300, thorough_budget=600, per_path=40,
       bounds="every whole-second time of day (partitioned by 6-hour block): the extended ISO patterns write exactly hh:mm:ss (the long form "
              "adds nine zero digits) and read that text back; fractions: time_iso_fraction")
def time_iso(P):
    pat = LocalTimePattern.extended_iso if P[0] == "iso" else LocalTimePattern.long_extended_iso
    nine = P[0] == "long-iso"
    h0, sig = P[1], P[2]

    def h(hh, mi, ss, f):
        assume(h0 <= hh < h0 + 6)
        assume(0 <= mi <= 59)
        assume(0 <= ss <= 59)
        if sig == 0:
            assume(f == 0)
        else:
            assume(1 <= f <= 999999999)
            assume(f % (10 ** (9 - sig)) == 0)          # at most `sig` significant digits ...
            if sig > 3:
                assume(f % (10 ** (12 - sig)) != 0)     # ... and more than sig - 3
        n = ((hh * 60 + mi) * 60 + ss) * NS + f
        t = LocalTime._ctor(nanoseconds=n)
        ref = ref_time(hh, mi, ss, f, nine)
        if pat.format(t) != ref:
            return False
        r = pat.parse(ref)
        return r.success and r.value.nanosecond_of_day == n
    return h


@lemma({"f": int}, params=lambda tier, seed: [[p, sig] for p in ("iso", "long-iso") for sig in range(1, 10)],
       budget=300, thorough_budget=600, per_path=40,
       bounds="every fraction of a second with exactly the given number of significant digits (1..9) at the fixed time 12:34:56 "
              "(the fraction field is rendered and parsed after the hh:mm:ss fields, which time_iso covers): the text is 12:34:56.<digits> without "
              "trailing zeros (long form: nine digits) and reads back to the same nanosecond")
def time_iso_fraction(P):
    pat = LocalTimePattern.extended_iso if P[0] == "iso" else LocalTimePattern.long_extended_iso
    nine = P[0] == "long-iso"
    sig = P[1]

    def h(f):
        assume(1 <= f <= 999999999)
        assume(f % (10 ** (9 - sig)) == 0)              # at most `sig` significant digits ...
        assume(f % (10 ** (10 - sig)) != 0)             # ... and the last of them is not zero
        n = ((12 * 60 + 34) * 60 + 56) * NS + f
        t = LocalTime._ctor(nanoseconds=n)
        ref = ref_time(12, 34, 56, f, nine)
        if pat.format(t) != ref:
            return False
        r = pat.parse(ref)
        return r.success and r.value.nanosecond_of_day == n
    return h


def ref_offset(sec, z):
    if sec == 0 and z:
        return "Z"
    sign = "+" if sec >= 0 else "-"
    a = abs(sec)
    hh, mi, ss = a // 3600, (a // 60) % 60, a % 60
    if mi == 0 and ss == 0:
        return f"{sign}{hh:02}"
    if ss == 0:
        return f"{sign}{hh:02}:{mi:02}"
    return f"{sign}{hh:02}:{mi:02}:{ss:02}"


@lemma({"sec": int}, params=[[p, sg] for p in ("g", "G") for sg in ("+", "-")], budget=400, per_path=30,
       bounds="every Offset in +-18h: the general invariant patterns write +hh[:mm[:ss]] with fixed two-digit fields (Z for zero under G) "
              "and read the reference text back; in particular every whole-minute offset is valid ISO-8601 +hh:mm / +hh")
def offset_iso(P):
    pat = OffsetPattern.general_invariant if P[0] == "g" else OffsetPattern.general_invariant_with_z

    def h(sec):
        assume(0 <= sec <= 64800 if P[1] == "+" else -64800 <= sec < 0)
        v = Offset.from_seconds(sec)
        ref = ref_offset(sec, P[0] == "G")
        if pat.format(v) != ref:
            return False
        r = pat.parse(ref)
        return r.success and r.value.seconds == sec
    return h


@lemma({"d": int, "hh": int, "mi": int, "ss": int}, params=lambda tier, seed: [[k] for k in ([0, 1, 2, 3] if tier == "thorough" else [seed % 4])],
       budget=400, thorough_budget=1500, per_path=60, tiers=("thorough",),
       bounds="Instants at whole seconds on a day of a seeded 60-day window per era block (around years 1, 1970, 2400, 9999): "
              "InstantPattern.extended_iso writes yyyy-mm-ddThh:mm:ssZ (date part via the real ISO calendar) and the text ends in Z and parses back")
def instant_iso(P):
    from props import calsetup as cs
    from props import ymdrecord
    cal, calc, _a, _b = cs.prepare("ISO")
    ymdrecord.install()
    pat = InstantPattern.extended_iso
    base = [-719162, 0, 157054, 2932837][P[0]]       # 0001-01-01, 1970-01-01, 2400-01-01, 9999-11-03

    def h(d, hh, mi, ss):
        assume(base <= d < base + 60)
        assume(0 <= hh <= 23)
        assume(0 <= mi <= 59)
        assume(0 <= ss <= 59)
        inst = Instant._ctor(days=d, nano_of_day=((hh * 60 + mi) * 60 + ss) * NS)
        text = pat.format(inst)
        y, z = calc._get_year(d)
        ymd = calc._get_year_month_day_from_year_and_day_of_year(y, z + 1)
        ref = ref_date(ymd._year, ymd._month, ymd._day) + "T" + ref_time(hh, mi, ss, 0) + "Z"
        if text != ref:
            return False
        r = pat.parse(ref)
        return r.success and r.value == inst
    return h


@lemma(premise=True, params=["cpython"], budget=120)
def premise_reference_matches_cpython(P):
    """Auxiliary: the reference ISO writer used as oracle agrees with CPython's isoformat / fromisoformat on a grid of values, and the
    real patterns interoperate with CPython on them (concrete)."""
    import datetime as dt
    bad = []
    for (y, m, d) in [(1, 1, 1), (999, 12, 31), (1970, 1, 1), (2024, 2, 29), (9999, 12, 31)]:
        if ref_date(y, m, d) != dt.date(y, m, d).isoformat():
            bad.append(("date", y, m, d))
        if LocalDatePattern.iso.parse(dt.date(y, m, d).isoformat()).value != LocalDate(y, m, d):
            bad.append(("date-parse", y, m, d))
        if dt.date.fromisoformat(LocalDatePattern.iso.format(LocalDate(y, m, d))) != dt.date(y, m, d):
            bad.append(("date-format", y, m, d))
    for (hh, mi, ss, us) in [(0, 0, 0, 0), (23, 59, 59, 999999), (12, 34, 56, 789000), (1, 2, 3, 100000)]:
        t = dt.time(hh, mi, ss, us)
        if ref_time(hh, mi, ss, us * 1000) != t.isoformat().rstrip("0").rstrip(".") if us else ref_time(hh, mi, ss, 0) != t.isoformat():
            bad.append(("time", hh, mi, ss, us))
        got = LocalTimePattern.extended_iso.parse(t.isoformat())
        if not got.success or got.value != LocalTime.from_time(t):
            bad.append(("time-parse", hh, mi, ss, us))
        if dt.time.fromisoformat(LocalTimePattern.extended_iso.format(LocalTime.from_time(t))) != t:
            bad.append(("time-format", hh, mi, ss, us))
    return (not bad), (f"mismatches: {bad}" if bad else "reference writer, CPython and the built-in patterns agree on the grid")


from props import fpk  # noqa: E402

fpk.declare()
