"""C18 — Interval and DateInterval behave as the sets of instants or days they denote."""
from symx import stubs
from symx.driver import assume
from symx.lemma import lemma

stubs.standard()

from props import daycal  # noqa: E402
from pyoda_time import DateInterval, Instant, Interval, PyodaConstants, YearMonth  # noqa: E402

NPD = PyodaConstants.NANOSECONDS_PER_DAY
def H():
    daycal.install_plus_days_contract()
    return daycal.host("Coptic")       # created on first use: only the DayCalendar lemmas inject into a real CalendarSystem


def H2():
    return daycal.host("Julian")


D = daycal.date


@lemma({"A": int, "B": int, "C": int, "E": int, "X": int}, budget=120, per_path=30,
       bounds="every pair of DateIntervals [A,B], [C,E] and every day X in one calendar (DayCalendar over real LocalDate/DateInterval): "
              "len, membership of a day and of an interval, intersection, union (defined iff overlapping or adjacent) = the set operations")
def dateinterval_sets(A, B, C, E, X):
    assume(A <= B)
    assume(C <= E)
    a, b, c, e, x = D(H(), A), D(H(), B), D(H(), C), D(H(), E), D(H(), X)
    I, J = DateInterval(a, b), DateInterval(c, e)
    ok = len(I) == B - A + 1 and ((x in I) == (A <= X <= B)) and ((J in I) == (A <= C and E <= B))
    ok = ok and I.contains(x) == (A <= X <= B) and I.contains(J) == (A <= C and E <= B)
    inter = I & J
    lo_, hi_ = max(A, C), min(B, E)
    if lo_ <= hi_:
        ok = ok and inter is not None and daycal.days_of(inter.start) == lo_ and daycal.days_of(inter.end) == hi_
    else:
        ok = ok and inter is None
    uni = I | J
    if lo_ <= hi_ + 1:
        ok = ok and uni is not None and daycal.days_of(uni.start) == min(A, C) and daycal.days_of(uni.end) == max(B, E)
    else:
        ok = ok and uni is None
    ok = ok and (I == J) == (A == C and B == E) and I.calendar is H()
    return ok and daycal.days_of(I.start) == A and daycal.days_of(I.end) == B     # operands unchanged


@lemma({"A": int, "B": int, "other": bool}, budget=60,
       bounds="DateInterval(start, end) for every pair of days: rejected iff end < start or the calendars differ")
def dateinterval_ctor(A, B, other):
    a = D(H(), A)
    b = D(H2() if other else H(), B)
    try:
        DateInterval(a, b)
    except ValueError:
        return (B < A) or other
    return not (B < A) and not other


@lemma({"A": int, "n": int}, budget=60, bounds="iteration over every DateInterval of length <= 4 yields exactly the days A, A+1, ..., in order")
def dateinterval_iter(A, n):
    assume(0 <= n <= 3)
    I = DateInterval(D(H(), A), D(H(), A + n))
    got = [daycal.days_of(d) for d in I]
    return got == [A + i for i in range(int(n) + 1)]


@lemma({"A": int, "B": int, "X": int, "mixed": bool}, budget=60,
       bounds="membership / containment / set operations with a date or interval of ANOTHER calendar raise ValueError")
def dateinterval_mixed_calendar(A, B, X, mixed):
    assume(A <= B)
    I = DateInterval(D(H(), A), D(H(), B))
    x = D(H2(), X)
    J = DateInterval(x, x)
    for f in (lambda: x in I, lambda: J in I, lambda: I & J, lambda: I | J):
        try:
            f()
        except ValueError:
            continue
        return False
    return True


IMIN, IMAX = Instant._MIN_DAYS, Instant._MAX_DAYS


def _inst(t):
    assume(IMIN * NPD <= t < (IMAX + 1) * NPD)
    return Instant._ctor(days=t // NPD, nano_of_day=t % NPD)


@lemma({"s": int, "e": int, "x": int, "hs": bool, "he": bool}, budget=120, per_path=30,
       bounds="every Interval with bounded or unbounded start/end (None = start/end of time) x every instant: half-open membership, "
              "has_start/has_end, start/end/duration raise RuntimeError exactly on unbounded ends, construction rejects end < start")
def interval_sets(s, e, x, hs, he):
    st = _inst(s) if hs else None
    en = _inst(e) if he else None
    xi = _inst(x)
    try:
        iv = Interval(st, en)
    except ValueError:
        return hs and he and e < s
    if hs and he and e < s:
        return False
    member = (not hs or s <= x) and (not he or x < e)
    ok = (xi in iv) == member and iv.contains(xi) == member and iv.has_start == hs and iv.has_end == he
    try:
        ok = ok and iv.start == st and hs
    except RuntimeError:
        ok = ok and not hs
    try:
        ok = ok and iv.end == en and he
    except RuntimeError:
        ok = ok and not he
    try:
        dur = iv.duration
        ok = ok and hs and he and dur.to_nanoseconds() == e - s
    except RuntimeError:
        ok = ok and not (hs and he)
    parts = list(iv)
    return ok and (parts[0] is None) == (not hs) and (parts[1] is None) == (not he)


@lemma({"s": int, "e": int, "s2": int, "e2": int}, budget=60, bounds="Interval equality is component-wise for every pair of bounded intervals")
def interval_eq(s, e, s2, e2):
    assume(s <= e)
    assume(s2 <= e2)
    a, b = Interval(_inst(s), _inst(e)), Interval(_inst(s2), _inst(e2))
    return (a == b) == (s == s2 and e == e2) and (a != b) == (not (s == s2 and e == e2)) and a.equals(b) == (s == s2 and e == e2)


@lemma({"year": int, "month": int}, params=["ISO", "Julian", "Coptic"], budget=90, per_path=30,
       bounds="YearMonth.to_date_interval for every (year, month) of the calendar: first to last day of that month")
def yearmonth_interval(P):
    from props import calsetup as cs
    from props import ymdrecord
    cal, calc, lo, hi = cs.prepare(P)
    ymdrecord.install()

    def h(year, month):
        assume(lo <= year <= hi)
        assume(1 <= month <= calc._get_months_in_year(year))
        iv = YearMonth(year=year, month=month, calendar=cal).to_date_interval()
        s, e = iv.start, iv.end
        return (s.year == year and s.month == month and s.day == 1 and e.year == year and e.month == month
                and e.day == calc._get_days_in_month(year, month) and s.calendar is cal)
    return h


# ------------------------------------------------------------------------------------------------ a calendar whose month numbers are not in time order
def _heb_interval_params(tier, seed):
    from props import calsetup as cs
    ws = cs.windows("Hebrew Scriptural", 40)
    ws = ws if tier == "thorough" else cs.pick(ws, seed + 3, 1)
    return [[cs.P("Hebrew Scriptural", *w), m] for w in ws for m in ((1, 4, 7, 10, 12) if tier == "quick" else range(1, 14))]


@lemma({"year": int, "ms": int, "ds": int, "me": int, "de": int, "mx": int, "dx": int}, params=_heb_interval_params, budget=300, per_path=40,
       bounds="DateInterval over REAL Hebrew-scriptural dates of one year (the year runs month 7..13, then 1..6, so month numbers are not in time "
              "order; a seeded 40-year window, partitioned by the start date's month - 5 months in quick, all 13 in thorough): construction is "
              "accepted exactly when start <= end in TIME order, and `x in interval` is exactly start <= x <= end in time order")
def dateinterval_hebrew_scriptural(PM):
    from props import calsetup as cs
    from props import ymdrecord
    from pyoda_time import DateInterval, LocalDate
    P, first_month = PM
    cid, lo, hi = cs.unP(P)
    cal, calc, lo, hi = cs.prepare(cid, lo, hi)
    ymdrecord.install()

    def key(year, m, d):
        return calc._get_days_from_start_of_year_to_start_of_month(year, m) * 32 + d

    def h(year, ms, ds, me, de, mx, dx):
        assume(ms == first_month)
        assume(lo <= year <= hi)
        n = calc._get_months_in_year(year)
        for m in (ms, me, mx):
            assume(1 <= m <= n)
        for d in (ds, de, dx):
            assume(1 <= d <= 29)                     # every Hebrew month has at least 29 days
        mk = lambda m, d: LocalDate._ctor(year_month_day_calendar=ymdrecord.YMDC(year, m, d, cal._ordinal))     # noqa: E731
        ks, ke, kx = key(year, ms, ds), key(year, me, de), key(year, mx, dx)
        try:
            iv = DateInterval(mk(ms, ds), mk(me, de))
        except ValueError:
            return ke < ks
        if ke < ks:
            return False
        x = mk(mx, dx)
        return (x in iv) == (ks <= kx <= ke) and iv.contains(x) == (ks <= kx <= ke)
    return h, cs.reset_hebrew_cache
