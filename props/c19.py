"""C19 — clocks follow their simple model under any sequence of operations (sequential histories; lock discipline observed)."""
from symx import stubs
from symx.driver import assume
from symx.lemma import lemma

stubs.standard()

import pyoda_time._system_clock as sysclock_mod  # noqa: E402
import pyoda_time.testing._fake_clock as fc  # noqa: E402
from pyoda_time import CalendarSystem, DateTimeZone, Duration, Instant, Offset, PyodaConstants, SystemClock, ZonedClock  # noqa: E402
from pyoda_time.testing import FakeClock  # noqa: E402

NPD = PyodaConstants.NANOSECONDS_PER_DAY


class ReentrantMonitor:
    """Stand-in for threading.Lock / RLock used by FakeClock: records the discipline instead of blocking.
    A non-reentrant real lock re-acquired by its holder would block forever inside C; here `kind` decides: Lock -> Deadlock."""
    instances = []

    def __init__(self, reentrant):
        self.reentrant = reentrant
        self.depth = 0
        self.max_depth = 0
        self.acquisitions = 0
        ReentrantMonitor.instances.append(self)

    def acquire(self, *a, **k):
        if self.depth and not self.reentrant:
            raise stubs.Deadlock("non-reentrant lock re-acquired by its holder: the operation would never complete")
        self.depth += 1
        self.acquisitions += 1
        self.max_depth = max(self.max_depth, self.depth)
        return True

    def release(self):
        if self.depth <= 0:
            raise RuntimeError("release of an unheld lock")
        self.depth -= 1

    def __enter__(self):
        self.acquire()
        return self

    def __exit__(self, *a):
        self.release()


class _Threading:
    @staticmethod
    def Lock():
        return ReentrantMonitor(False)

    @staticmethod
    def RLock():
        return ReentrantMonitor(True)


fc.threading = _Threading          # attribute injection on the module under test (listed as a stub)
stubs.STUBS_IN_FORCE.append("stub:pyoda_time.testing._fake_clock.threading -> monitor locks (Lock: re-acquisition by the holder raises Deadlock; "
                            "RLock: counted); balance checked after every operation")

UNIT_NS = {"nanoseconds": 1, "ticks": 100, "milliseconds": 10 ** 6, "seconds": 10 ** 9, "minutes": 60 * 10 ** 9,
           "hours": 3600 * 10 ** 9, "days": NPD}
UNIT_NAMES = list(UNIT_NS)
LO, HI = Instant._MIN_DAYS * NPD, (Instant._MAX_DAYS + 1) * NPD - 1


def _inst(ns):
    return Instant._ctor(days=ns // NPD, nano_of_day=ns % NPD)


def _ns(i):
    d = i._time_since_epoch
    return d._floor_days * NPD + d._nanosecond_of_floor_day


def _fakeclock_sequence(k):
    """ops: 0 read, 1 advance(Duration), 2 reset, 3 set auto_advance, 4 read auto_advance, 5.. advance_<unit>"""
    n_ops = 5 + len(UNIT_NAMES)

    def h(**kw):
        t0, aa = kw["t0"], kw["aa"]
        B = 10 ** 17                       # +-3 years around the epoch: all sums stay far inside the Instant range
        assume(-B <= t0 <= B)
        assume(-B <= aa <= B)
        clock = FakeClock(_inst(t0), Duration.from_nanoseconds(aa))
        lock = ReentrantMonitor.instances[-1]
        now, auto = t0, aa
        for i in range(k):
            op, v = kw[f"op{i}"], kw[f"v{i}"]
            assume(0 <= op < n_ops)
            assume(-B <= v <= B)
            if op == 0:
                if _ns(clock.get_current_instant()) != now:
                    return False
                now += auto
            elif op == 1:
                clock.advance(Duration.from_nanoseconds(v))
                now += v
            elif op == 2:
                clock.reset(_inst(v))
                now = v
            elif op == 3:
                clock.auto_advance = Duration.from_nanoseconds(v)
                auto = v
            elif op == 4:
                if clock.auto_advance.to_nanoseconds() != auto:
                    return False
            else:
                name = UNIT_NAMES[int(op) - 5]
                unit = UNIT_NS[name]
                amount = v // unit // 1000          # keep unit amounts modest; any sign
                getattr(clock, "advance_" + name)(amount)
                now += amount * unit
            if lock.depth != 0:
                return False                        # every operation releases the lock
        return _ns(clock.get_current_instant()) == now and lock.depth == 0 and lock.acquisitions >= k + 1
    return h


def _seq_args(k):
    a = {"t0": int, "aa": int}
    for i in range(k):
        a[f"op{i}"] = int
        a[f"v{i}"] = int
    return a


N_OPS = 5 + len(UNIT_NAMES)


def _prefixed(k, prefix):
    base = _fakeclock_sequence(k)

    def h(**kw):
        for i, op in enumerate(prefix):
            assume(kw[f"op{i}"] == op)
        return base(**kw)
    return h


@lemma(_seq_args(2), params=[[a] for a in range(N_OPS)], budget=120, per_path=30,
       bounds="every sequence of 2 FakeClock operations (read, advance, reset, set/get auto-advance, advance_<7 units>) with arbitrary "
              "signed amounts within +-10**17 ns, then a final read, vs the trivial model; lock balanced after every operation "
              "(partitioned by the first operation: 12 partitions cover the space)")
def fakeclock_k2(P):
    return _prefixed(2, P)


@lemma(_seq_args(3), params=[[a, b] for a in range(N_OPS) for b in range(N_OPS)], budget=200, per_path=30, tiers=("thorough",),
       bounds="every sequence of 3 FakeClock operations (as k=2; partitioned by the first two operations: 144 partitions)")
def fakeclock_k3(P):
    return _prefixed(3, P)


@lemma({"t0": int, "aa": int}, budget=60,
       bounds="any start instant, any non-zero auto-advance (|.| <= 10**17 ns, including sub-tick amounts): 3 consecutive reads return 3 distinct instants t0, t0+a, t0+2a")
def fakeclock_reads_distinct(t0, aa):
    B = 10 ** 17
    assume(-B <= t0 <= B)
    assume(-B <= aa <= B)
    assume(aa != 0)
    c = FakeClock(_inst(t0), Duration.from_nanoseconds(aa))
    a, b, d = _ns(c.get_current_instant()), _ns(c.get_current_instant()), _ns(c.get_current_instant())
    return a == t0 and b == t0 + aa and d == t0 + 2 * aa and a != b and b != d and a != d


@lemma({"t": int}, budget=60, bounds="time.time_ns stubbed with an arbitrary int |t| <= 10**21: SystemClock = epoch + t ns, or raises outside the Instant range")
def system_clock(t):
    assume(-10 ** 21 <= t <= 10 ** 21)

    class _Time:
        @staticmethod
        def time_ns():
            return t
    old = sysclock_mod.time
    sysclock_mod.time = _Time
    try:
        try:
            i = SystemClock.instance.get_current_instant()
        except (ValueError, OverflowError):
            return not (LO <= t <= HI)
        return LO <= t <= HI and _ns(i) == t
    finally:
        sysclock_mod.time = old


class _StubClock:
    def __init__(self, i):
        self.i = i
        self.reads = 0

    def get_current_instant(self):
        self.reads += 1
        return self.i


@lemma({"d": int, "n": int, "o": int}, params=["Coptic"], budget=200, per_path=120,
       bounds="ZonedClock over a stub clock (any instant 2 days inside the range), a fixed-offset zone (symbolic choice among 5 offsets in "
              "+-18h) and a calendar abstracted to day numbers (DayCalendar): every getter is the wrapped instant rendered in zone and calendar")
def zoned_clock(P):
    from props import daycal
    cal = daycal.host(P)
    offsets = [-64800, -3600, 0, 19800, 64800]
    zones = [DateTimeZone.for_offset(Offset.from_seconds(s)) for s in offsets]

    def h(d, n, o):
        assume(max(Instant._MIN_DAYS, cal._min_days) + 2 <= d <= min(Instant._MAX_DAYS, cal._max_days) - 2)
        assume(0 <= n < NPD)
        assume(0 <= o < len(offsets))
        zone = zones[int(o)]
        off = offsets[int(o)]
        inst = Instant._ctor(days=d, nano_of_day=n)
        stub = _StubClock(inst)
        zc = ZonedClock(stub, zone, cal)
        ok = zc.get_current_instant() is inst and zc.clock is stub and zc.zone is zone and zc.calendar is cal
        z = zc.get_current_zoned_date_time()
        local = d * NPD + n + off * 10 ** 9
        ok = ok and z.offset.seconds == off and z.calendar is cal and z.zone is zone
        ok = ok and daycal.days_of(z.date) == local // NPD and z.time_of_day.nanosecond_of_day == local % NPD
        ldt = zc.get_current_local_date_time()
        ok = ok and ldt.nanosecond_of_day == local % NPD and ldt.calendar is cal and daycal.days_of(ldt.date) == local // NPD
        ok = ok and zc.get_curent_time_of_day().nanosecond_of_day == local % NPD
        odt = zc.get_current_offset_date_time()
        ok = ok and odt.offset.seconds == off and odt.calendar is cal
        ok = ok and daycal.days_of(odt.date) == local // NPD and odt.time_of_day.nanosecond_of_day == local % NPD
        date = zc.get_current_date()
        return ok and daycal.days_of(date) == local // NPD and date.calendar is cal and stub.reads >= 6
    return h


class _TickingClock:
    """A clock that advances by `step` nanoseconds on every read (the FakeClock auto-advance model with an arbitrary step)."""

    def __init__(self, t0, step):
        self.t0, self.step = t0, step
        self.reads = 0

    def get_current_instant(self):
        t = self.t0 + self.reads * self.step
        self.reads += 1
        return Instant._ctor(days=t // NPD, nano_of_day=t % NPD)


@lemma({"d": int, "n": int, "step": int, "o": int}, params=[f"{k}@{i}" for k in ("zoned", "offset") for i in range(5)] + ["local", "date", "time", "instant"], budget=120, per_path=30,
       bounds="ZonedClock over a clock that advances by ANY step 0..2 days per read (auto-advance model), a fixed-offset zone (5 offsets in "
              "+-18h) and the DayCalendar: each getter reads the wrapped clock exactly as one read of the model - its result is the rendering "
              "of the value of ONE read (the first), and a following read sees the clock advanced by one step only (the zoned and offset getters: "
              "one instance per offset - with the offset symbolic one query sits at the solver's time limit)")
def zoned_clock_ticking(P):
    P, _, fixed = P.partition("@")
    from props import daycal
    cal = daycal.host("Coptic")
    offsets = [-64800, -3600, 0, 19800, 64800]
    zones = [DateTimeZone.for_offset(Offset.from_seconds(s)) for s in offsets]

    def h(d, n, step, o):
        assume(max(Instant._MIN_DAYS, cal._min_days) + 4 <= d <= min(Instant._MAX_DAYS, cal._max_days) - 8)
        assume(0 <= n < NPD)
        assume(0 <= step <= 2 * NPD)
        assume(0 <= o < len(offsets))
        if fixed:
            assume(o == int(fixed))
            o = int(fixed)
        zone, off = zones[int(o)], offsets[int(o)]
        t0 = d * NPD + n
        clock = _TickingClock(t0, step)
        zc = ZonedClock(clock, zone, cal)
        local = t0 + off * 10 ** 9
        if P == "zoned":
            z = zc.get_current_zoned_date_time()
            ok = daycal.days_of(z.date) == local // NPD and z.time_of_day.nanosecond_of_day == local % NPD and z.offset.seconds == off
        elif P == "offset":
            z = zc.get_current_offset_date_time()
            ok = daycal.days_of(z.date) == local // NPD and z.time_of_day.nanosecond_of_day == local % NPD and z.offset.seconds == off
        elif P == "local":
            ldt = zc.get_current_local_date_time()
            ok = daycal.days_of(ldt.date) == local // NPD and ldt.nanosecond_of_day == local % NPD
        elif P == "date":
            ok = daycal.days_of(zc.get_current_date()) == local // NPD
        elif P == "time":
            ok = zc.get_curent_time_of_day().nanosecond_of_day == local % NPD
        else:
            t = zc.get_current_instant()._time_since_epoch
            ok = t._floor_days * NPD + t._nanosecond_of_floor_day == t0
        # the getter consumed one read of the model: the next read is exactly one step later
        nxt = clock.get_current_instant()._time_since_epoch
        return ok and nxt._floor_days * NPD + nxt._nanosecond_of_floor_day == t0 + step
    return h


@lemma({"y": int, "m": int, "d": int, "hh": int, "mi": int, "ss": int}, params=list(range(1, 13)), budget=200, per_path=40,
       bounds="FakeClock.from_utc(y, m, d, hh, mi, ss) for every valid date of the given month in years 1..9999 and every time of day: the clock "
              "reads the instant that many days (ISO day number: C01/C02) and exactly hh:mm:ss into the day after the Unix epoch, twice in a row "
              "(auto-advance starts at zero)")
def fakeclock_from_utc(P):
    from props import calsetup as cs
    from props import ymdrecord
    cal, calc, _a, _b = cs.prepare("ISO")
    ymdrecord.install()
    month = P

    def h(y, m, d, hh, mi, ss):
        assume(1 <= y <= 9999)
        assume(m == month)
        assume(1 <= d <= calc._get_days_in_month(y, month))
        assume(0 <= hh <= 23)
        assume(0 <= mi <= 59)
        assume(0 <= ss <= 59)
        clock = FakeClock.from_utc(y, month, d, hh, mi, ss)
        days = calc._get_days_since_epoch(ymdrecord.YMD(y, month, d))
        want = days * NPD + ((hh * 60 + mi) * 60 + ss) * 10 ** 9
        a = clock.get_current_instant()._time_since_epoch
        b = clock.get_current_instant()._time_since_epoch
        return (a._floor_days * NPD + a._nanosecond_of_floor_day == want and b._floor_days * NPD + b._nanosecond_of_floor_day == want
                and clock.auto_advance.to_nanoseconds() == 0)
    return h
