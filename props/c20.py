"""C20 — damaged time-zone data is rejected with the documented error, promptly.

The fault space is driven through the data layer's two entry points (`_TzdbStreamData._from_stream` for the container and
`_TzdbStreamData.create_zone` for a zone's payload, which is what `TzdbDateTimeZoneSource.from_stream` / `for_id` call), with the
damaged bytes SYMBOLIC: (a) a real zone's field with k consecutive bytes replaced by symbolic bytes at a chosen offset, (b) a real
zone's field truncated at a symbolic length, (c) a short fully symbolic zone payload, (d) a short symbolic container tail."""
from symx import stubs
from symx.driver import assume
from symx.lemma import lemma

stubs.standard()

from pyoda_time.time_zones._tzdb_date_time_zone_source import TzdbDateTimeZoneSource  # noqa: E402
from pyoda_time.time_zones.io._tzdb_stream_data import _TzdbStreamData  # noqa: E402
from pyoda_time.utility import InvalidPyodaDataError  # noqa: E402

from pyoda_time import Duration, Instant, LocalTime, Offset  # noqa: E402

for _cls in (Instant, Offset, LocalTime, Duration):
    # range / ordering failures embed the offending values in their message: formatting a symbolic value runs the whole text layer
    _cls.__repr__ = lambda self: "<value>"
    _cls.__str__ = lambda self: "<value>"
    _cls.__format__ = lambda self, spec: "<value>"
stubs.STUBS_IN_FORCE.append("stub:Instant/Offset/LocalTime/Duration __repr__/__str__/__format__ constant inside C20 harnesses (error messages embed values)")

from props import calsetup as _cs  # noqa: E402
from props import ymdrecord as _ymdrecord  # noqa: E402

_cs.prepare("ISO")          # the tail's yearly rules are evaluated once while a zone is built: ISO calendar in its tabulated form (C01)
_ymdrecord.install()

_SRC = TzdbDateTimeZoneSource.default
DATA = _SRC._TzdbDateTimeZoneSource__source
FIELDS = DATA._TzdbStreamData__zone_fields
ZONE_IDS = sorted(FIELDS)


class SymPool:
    """Stands in for the string pool inside create_zone: the real length, every index yields a fixed text (no code below branches on the
    text of a pooled string; a symbolic index into the real tuple would be enumerated value by value)."""

    def __init__(self, n):
        self.n = n

    def __len__(self):
        return self.n

    def __getitem__(self, i):
        if not (0 <= i < self.n):
            raise IndexError(i)
        return "pooled"


POOL_LEN = len(DATA._TzdbStreamData__string_pool)
DATA._TzdbStreamData__string_pool = SymPool(POOL_LEN)
stubs.STUBS_IN_FORCE.append("stub:string pool inside create_zone replaced by a stand-in of the same length whose every entry is the text 'pooled'")


def field_bytes(zid):
    return [int(b) for b in FIELDS[zid]._TzdbStreamField__data]


class _Ctx:
    def __init__(self, s):
        self.s = s

    def __enter__(self):
        return self.s

    def __exit__(self, *a):
        return False


class SymField:
    """Stands in for a _TzdbStreamField: hands the reader a list-backed stream (keeps the damaged bytes symbolic), optionally cut at `limit`."""

    def __init__(self, buf, limit=None):
        self.buf, self.limit = buf, limit

    def _create_stream(self):
        buf = self.buf
        s = stubs.Stream(buf)
        if self.limit is not None:
            lim = self.limit
            real_read = s.read

            def read(n=-1):
                if n is None or n < 0:
                    n = len(buf)
                out = []
                for _ in range(n):
                    if s.pos >= lim or s.pos >= len(buf):
                        break
                    out.append(buf[s.pos])
                    s.pos += 1
                if not out:
                    s.eof_reads += 1
                    if s.eof_reads > s.EOF_READ_LIMIT:
                        raise stubs.Hang(f"{s.eof_reads} consecutive reads at end of data")
                else:
                    s.eof_reads = 0
                return out
            s.read = read
        return _Ctx(s)


def _load(zid, buf, limit=None):
    """create_zone over a damaged field: returns normally or raises InvalidPyodaDataError; anything else is the counterexample"""
    saved = FIELDS[zid]
    FIELDS[zid] = SymField(buf, limit)
    try:
        try:
            DATA.create_zone(zid, zid)
        except InvalidPyodaDataError:
            return True
        return True                 # (using a zone decoded from damaged-but-accepted data is outside the property's statement)
    finally:
        FIELDS[zid] = saved


_PRIMS = ["read_count", "read_signed_count", "read_milliseconds", "read_offset", "read_zone_interval_transition", "read_string", "read_byte"]
_LAYOUTS = {}


def layout(zid):
    """[(start, end, primitive, value)] of the top-level reader calls made while the REAL field of `zid` is decoded (concrete)"""
    if zid in _LAYOUTS:
        return _LAYOUTS[zid]
    from pyoda_time.time_zones.io._date_time_zone_reader import _DateTimeZoneReader as R
    log, depth, saved = [], [0], {}

    def wrap(name):
        orig = saved[name] = getattr(R, name)

        def w(self, *a, **k):
            p0 = self._DateTimeZoneReader__input.pos
            depth[0] += 1
            try:
                r = orig(self, *a, **k)
            finally:
                depth[0] -= 1
            if depth[0] == 0:
                log.append((p0, self._DateTimeZoneReader__input.pos, name, r))
            return r
        setattr(R, name, w)
    for n in _PRIMS:
        wrap(n)
    keep = FIELDS[zid]
    FIELDS[zid] = SymField(field_bytes(zid))
    try:
        DATA.create_zone(zid, zid)
    finally:
        FIELDS[zid] = keep
        for n in _PRIMS:
            setattr(R, n, saved[n])
    _LAYOUTS[zid] = log
    return log


def _tail_start(zid):
    """offset of the first byte of the recurring tail (the byte after the tail flag) in the zone's field, or None"""
    lay = layout(zid)
    for i, (p0, p1, name, val) in enumerate(lay):
        if name == "read_byte" and i >= 3 and lay[i - 1][2] == "read_zone_interval_transition":
            return p1 if val == 1 else None
    return None


def reduced_tail_field(zid):
    """(bytes, tail offset): the zone's field reduced to ONE period (from the start of time to the real end of the last precalculated
    period, re-encoded by the real writer as an absolute transition) followed by the real tail bytes.  What the constructor does
    with the tail (its first interval is evaluated at the last period's end) depends on nothing else."""
    from pyoda_time.time_zones.io._date_time_zone_writer import _DateTimeZoneWriter as W
    lay = layout(zid)
    data = field_bytes(zid)
    t = _tail_start(zid)
    flag_i = next(i for i, e in enumerate(lay) if e[1] == t and e[2] == "read_byte")
    last_end = lay[flag_i - 1][3]                      # the last period's end (an Instant)
    name_e, off_e, sav_e = lay[flag_i - 4], lay[flag_i - 3], lay[flag_i - 2]
    out = stubs.Stream()
    w = W._ctor(out, None)
    w.write_zone_interval_transition(None, last_end)
    enc_end = [int(x) for x in out.buf]
    head = data[:lay[1][1]]                            # pooled id + zone type byte
    body = [1, 0] + data[name_e[0]:sav_e[1]] + enc_end  # count = 1, start-of-time marker, name/offset/savings of the last period, its end
    return head + body + data[t - 1:], len(head) + len(body) + 1


def _hybrid_params(tier, seed):
    """["body", zone, offset]: two symbolic bytes replace the real ones at that offset of the real field, for offsets before the tail in
    the zones whose field has at most 64 bytes (a handful of periods, so the damaged transition chain stays short).
    ["tail", zone, rel, block]: the same inside the tail flag / recurring tail (rel = -1 is the flag) of the zone's reduced field (last
    period + tail), first byte confined to a block of 32 values."""
    small = [z for z in ZONE_IDS if 5 <= len(field_bytes(z)) <= 64]
    tailed = [z for z in ZONE_IDS if _tail_start(z) is not None]
    out = []
    if tier == "quick":
        for i in range(7):
            z = small[(seed * 17 + i * 13) % len(small)]
            t = _tail_start(z)
            out.append(["body", z, (seed * 5 + i * 11) % ((t - 1) if t else len(field_bytes(z)))])
        for k in range(7):
            z = tailed[(seed * 29 + k * 23) % len(tailed)]
            buf, t = reduced_tail_field(z)
            rel = -1 + (seed + k * 3) % (len(buf) - t + 1)
            out.append(["tail", z, rel, buf[t + rel] // 32])          # the block holding the real value
        return out
    for z in small:
        t = _tail_start(z)
        out += [["body", z, o] for o in range((t - 1) if t else len(field_bytes(z)))]
    for z in tailed[seed % 5::max(1, len(tailed) // 12)][:12]:
        buf, t = reduced_tail_field(z)
        out += [["tail", z, rel, blk] for rel in range(-1, len(buf) - t) for blk in range(8)]
    return out


@lemma({"b0": int, "b1": int}, params=_hybrid_params, budget=200, thorough_budget=300, per_path=40,
       bounds="a real zone field of the bundled database with TWO consecutive bytes at an offset replaced by EVERY pair of byte values: "
              "create_zone works or raises InvalidPyodaDataError.  body: every offset before the tail of the zones whose field has <= 64 bytes "
              "(quick: 7 seeded (zone, offset) pairs).  tail: every offset from the tail flag to the end (flag, both yearly rules, savings) of the "
              "REDUCED field (the last precalculated period re-encoded from the start of time + the real tail bytes; the constructor evaluates the "
              "tail's rules once, at that period's end) of 12 zones with a recurring tail, the first byte's range split into 8 blocks of 32 values, "
              "one instance each (quick: 7 seeded (zone, offset) pairs, the block holding the real value).  "
              "Outside: damage in the middle of a long transition chain, and damage to the last transitions of a zone with a recurring tail "
              "(every later transition, and the instant at which the tail's rules are first evaluated, become symbolic; left to truncated_zone)")
def hybrid_two_bytes(P):
    kind, zid = P[0], P[1]
    if kind == "body":
        base, off, blk = field_bytes(zid), P[2], None
    else:
        base, t = reduced_tail_field(zid)
        off, blk = t + P[2], P[3]

    def h(b0, b1):
        assume(0 <= b0 <= 255)
        if blk is not None:
            assume(32 * blk <= b0 < 32 * blk + 32)
        assume(0 <= b1 <= 255)
        buf = list(base)
        buf[off] = b0
        if off + 1 < len(buf):
            buf[off + 1] = b1
        return _load(zid, buf)
    return h


@lemma({"ln": int}, params=lambda tier, seed: [ZONE_IDS[(seed * 613 + i * 211) % len(ZONE_IDS)] for i in range(6 if tier == "quick" else 60)],
       budget=240, per_path=40,
       bounds="a real zone field truncated at EVERY length (symbolic truncation point): create_zone works or raises InvalidPyodaDataError")
def truncated_zone(P):
    base = field_bytes(P)

    def h(ln):
        assume(0 <= ln <= len(base))
        return _load(P, list(base), limit=ln)
    return h


def _payload_args(n):
    a = {"ln": int}
    for i in range(n):
        a[f"b{i}"] = int
    return a


@lemma(_payload_args(4), params=lambda tier, seed: [["fixed", 3 if tier == "quick" else 4], ["precalc", 3 if tier == "quick" else 4]],
       budget=300, thorough_budget=1200, per_path=40,
       bounds="a zone field = [pooled id][type byte 1 or 2] followed by EVERY payload of <= 3 bytes (4 in thorough): create_zone works or raises InvalidPyodaDataError")
def short_payload(P):
    kind, n = P
    zid = ZONE_IDS[0]
    head = field_bytes(zid)
    # the id is a pooled-string index (varint): keep exactly those bytes
    k = 0
    while head[k] & 0x80:
        k += 1
    prefix = head[:k + 1] + [1 if kind == "fixed" else 2]

    def h(**kw):
        ln = kw["ln"]
        assume(0 <= ln <= n)
        bs = [kw[f"b{i}"] for i in range(4)]
        for b in bs:
            assume(0 <= b <= 255)
        return _load(zid, prefix + bs[:int(ln)])
    return h


# ------------------------------------------------------------------------------------------------ container level
from pyoda_time.time_zones.io._tzdb_stream_field import _TzdbStreamField  # noqa: E402
from pyoda_time.time_zones.io._tzdb_stream_field_id import _TzdbStreamFieldId  # noqa: E402

FIELD_IDS = sorted(int(m.value) for m in _TzdbStreamFieldId)


class _HeaderStream(stubs.Stream):
    def read(self, n=-1):
        out = stubs.Stream.read(self, n)
        if self.pos <= 4 and n == 4:
            return bytes(out)                  # the version header goes through struct.unpack (C boundary): concrete bytes
        return out


@lemma({"fid": int, "l0": int, "l1": int, "have": int}, params=["known-id", "unknown-id"], budget=200, per_path=40,
       bounds="a stream = accepted version header, then a field with EVERY id byte (partition: one of the defined ids / any other), EVERY "
              "one- or two-byte length varint and EVERY number 0..6 of (zero) data bytes actually present: _from_stream works or raises "
              "InvalidPyodaDataError; plus every truncation of the 4-byte header and a wrong version (concrete)")
def container_framing(P):
    import io

    def h(fid, l0, l1, have):
        for cut in range(4):               # every truncation of the header itself, and a wrong version (concrete)
            try:
                _TzdbStreamData._from_stream(io.BytesIO(b"\x00\x00\x00\x00"[:cut]))
                return False
            except InvalidPyodaDataError:
                pass
        try:
            _TzdbStreamData._from_stream(io.BytesIO(b"\x01\x00\x00\x00"))
            return False
        except InvalidPyodaDataError:
            pass
        assume(0 <= fid <= 255)
        if P == "known-id":
            k = 0
            for i, v in enumerate(FIELD_IDS):          # fork on which defined id it is (enum lookup is a dict lookup: concrete key)
                if fid == v:
                    k = v
                    break
            else:
                assume(False)
            fid = k
        else:
            for v in FIELD_IDS:
                assume(fid != v)
        assume(0 <= l0 <= 255)
        assume(0 <= l1 <= 127)
        assume(0 <= have <= 6)
        if P == "known-id":
            buf = [0, 0, 0, 0, fid, l0] + ([l1] if l0 >= 128 else []) + [0] * int(have)
        else:
            buf = [0, 0, 0, 0, fid, l0, l1]          # an undefined id is rejected before anything else of the field is read
        try:
            _TzdbStreamData._from_stream(_HeaderStream(buf))
        except InvalidPyodaDataError:
            pass
        return True
    return h


class _Framed:
    """What _read_fields yields, with the payload kept symbolic (the real framing copies the payload through bytearray, a C boundary)."""

    def __init__(self, fid, buf):
        self.id = _TzdbStreamFieldId(fid)
        self.buf = buf

    def _create_stream(self):
        return _Ctx(stubs.Stream(self.buf))

    def _extract_single_value(self, reader_function, string_pool):
        from pyoda_time.time_zones.io._date_time_zone_reader import _DateTimeZoneReader
        with self._create_stream() as stream:
            return reader_function(_DateTimeZoneReader._ctor(stream, string_pool))


def _mini_pool_bytes():
    """payload of a string-pool field holding three one-letter strings"""
    return [3, 1, 97, 1, 98, 1, 99]


@lemma(_payload_args(4), params=lambda tier, seed: [[f, p, 3 if tier == "quick" else 4] for f in FIELD_IDS for p in ((0, 1) if f != 0 else (0,))],
       budget=200, thorough_budget=900, per_path=40,
       bounds="_from_stream over [optional 3-entry string pool field][a field of the given id whose payload is EVERY byte string of <= 3 "
              "bytes (4 in thorough)] with the real field handlers and readers (framing replaced by a stand-in that keeps the payload "
              "symbolic; the framing itself is container_framing): works or raises InvalidPyodaDataError")
def field_payload(P):
    fid, with_pool, n = P
    real = _TzdbStreamField._read_fields

    def h(**kw):
        ln = kw["ln"]
        assume(0 <= ln <= n)
        bs = [kw[f"b{i}"] for i in range(4)]
        for b in bs:
            assume(0 <= b <= 255)
        fields = ([_Framed(0, _mini_pool_bytes())] if with_pool else []) + [_Framed(fid, bs[:int(ln)])]
        _TzdbStreamField._read_fields = classmethod(lambda cls, stream: iter(fields))
        try:
            _TzdbStreamData._from_stream(_HeaderStream([0, 0, 0, 0]))
        except InvalidPyodaDataError:
            pass
        finally:
            _TzdbStreamField._read_fields = real
        return True
    return h


def _fixed_zone_payload(idx):
    """payload of a zone field: [pooled id idx][type 1 = fixed][offset: one byte, 48 half hours = 0][pooled name idx]"""
    return [idx, 1, 48, idx]


@lemma(_payload_args(4), params=["id-map"], budget=200, per_path=40,
       bounds="a whole source built by _from_stream from [3-entry string pool 'a','b','c'][version][empty Windows mapping][one fixed zone 'a'] "
              "and an ID-MAP field whose payload is EVERY byte string of <= 4 bytes (count, alias index, target index, ...; so also aliases "
              "pointing at pooled strings that are no zone): constructing the source, listing ids and for_id on every listed id work or "
              "raise InvalidPyodaDataError (the path from_stream / get_ids / for_id take)")
def source_ids(P):
    real = _TzdbStreamField._read_fields

    def h(**kw):
        ln = kw["ln"]
        assume(0 <= ln <= 4)
        bs = [kw[f"b{i}"] for i in range(4)]
        for b in bs:
            assume(0 <= b <= 255)
        framed = [_Framed(0, _mini_pool_bytes()),
                  _Framed(1, [0, 1, 48, 0]),                 # zone: pooled id 'a', fixed, offset 0, name 'a'
                  _Framed(2, [1, 120]),                      # tzdb version "x" (inline string)
                  _Framed(4, [0, 0, 0, 0]),                  # Windows mapping: three pooled strings 'a' and no map zones
                  _Framed(3, bs[:int(ln)])]                  # the id map under test
        _TzdbStreamField._read_fields = classmethod(lambda cls, stream: iter(framed))
        try:
            try:
                data = _TzdbStreamData._from_stream(_HeaderStream([0, 0, 0, 0]))
            finally:
                _TzdbStreamField._read_fields = real
            src = TzdbDateTimeZoneSource._ctor(data)
            for zid in list(src.get_ids()):
                try:
                    src.for_id(zid)
                except InvalidPyodaDataError:
                    pass
        except InvalidPyodaDataError:
            pass
        return True
    return h
