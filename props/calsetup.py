"""Calendar preparation shared by the calendar lemmas (C01, C02, C09, C12, C16).

* year-start cache bypass (cache soundness is C13's lemma),
* class-level bytes tables re-exposed as tuples (a symbolic index into `bytes` realises),
* year-function tabulation for calculators whose year-level functions are out of the solver's reach
  (Hebrew molad arithmetic, Badi year starts, Persian 9 379-entry tables): the real function is run concretely for every
  year of a window and replaced by an ITE over exactly that window (symx WindowTable); contents are the code's own outputs,
  regenerated on every run.
"""
import z3
from crosshair.core import register_patch
from crosshair.libimpl.builtinslib import SymbolicInt
from crosshair.statespace import context_statespace
from crosshair.tracers import NoTracing
from crosshair.util import CrosshairUnsupported

from pyoda_time import CalendarSystem
from pyoda_time.calendars._badi_year_month_day_calculator import _BadiYearMonthDayCalculator as BD
from pyoda_time.calendars._gregorian_year_month_day_calculator import _GregorianYearMonthDayCalculator as GR
from pyoda_time.calendars._hebrew_scriptural_calculator import _HebrewScripturalCalculator as HS
from pyoda_time.calendars._persian_year_month_day_calculator import _PersianYearMonthDayCalculator as PY
from pyoda_time.calendars._um_al_qura_year_month_day_calculator import _UmAlQuraYearMonthDayCalculator as UQ
from pyoda_time.calendars._year_month_day_calculator import _YearMonthDayCalculator
from symx import stubs

ALL_IDS = list(CalendarSystem.ids)
FULL = ["ISO", "Julian", "Coptic", "Um Al Qura"]                 # every lemma over the full year range
ISLAMIC = [i for i in ALL_IDS if i.startswith("Hijri")]
PERSIAN = [i for i in ALL_IDS if i.startswith("Persian")]
HEBREW = [i for i in ALL_IDS if i.startswith("Hebrew")]
WINDOWED = PERSIAN + HEBREW + ["Badi"]
WINDOW = 180


class WindowTable:
    """Values of a pure year-level function tabulated by running the real code; a symbolic lookup is an ITE over [lo, hi].
    A lookup whose index cannot be proved inside the window makes the path UNKNOWN (never confirmed)."""

    def __init__(self, fn, lo, hi):
        self.lo, self.hi = lo, hi
        self.vals = {y: fn(y) for y in range(lo, hi + 1)}

    def __call__(self, i):
        with NoTracing():
            if not isinstance(i, SymbolicInt):
                return self.vals[int(i)]
            space = context_statespace()
            if space.is_possible(z3.Not(z3.And(i.var >= self.lo, i.var <= self.hi))):
                raise CrosshairUnsupported("year-function table: index may leave the tabulated window")
            e = z3.IntVal(int(self.vals[self.hi]))
            for y in range(self.hi - 1, self.lo - 1, -1):
                e = z3.If(i.var == y, z3.IntVal(int(self.vals[y])), e)
            return SymbolicInt(e)


_prepared = {}


def prepare(cal_id, lo=None, hi=None, tabulate_months=False):
    """Returns (calendar, calculator, lo, hi): the year range the lemma quantifies over (whole range unless windowed)."""
    key = (cal_id, lo, hi, tabulate_months)
    if key in _prepared:
        return _prepared[key]
    cal = CalendarSystem.for_id(cal_id)
    calc = cal._year_month_day_calculator
    ymin, ymax = calc._min_year, calc._max_year
    windowed = lo is not None
    if lo is None:
        lo, hi = ymin, ymax
    lo, hi = max(lo, ymin), min(hi, ymax)
    # cache bypass for the generic cache (Gregorian falls back to it outside 1900..2100; its own table stays real)
    if "cache" not in _prepared:
        _prepared["cache"] = True
        register_patch(_YearMonthDayCalculator._get_start_of_year_in_days,
                       lambda self, year: self._calculate_start_of_year_days(year))
        stubs.STUBS_IN_FORCE.append("bypass:_YearMonthDayCalculator._get_start_of_year_in_days -> _calculate_start_of_year_days "
                                    "(year-start cache soundness is C13.yearcache)")
    # long lists -> tuples (ITE chains instead of realisation); bytes tables -> tuples
    for k in list(vars(calc)):
        v = getattr(calc, k)
        if isinstance(v, list) and len(v) > 40:
            setattr(calc, k, tuple(v))
    if cal_id == "Um Al Qura":
        # class-level dict tables keyed 0..184 -> tuples: a symbolic key into a dict forks per entry, a tuple index is an ITE chain
        for nm in ("_UmAlQuraYearMonthDayCalculator__MONTH_LENGTHS", "_UmAlQuraYearMonthDayCalculator__YEAR_LENGTHS",
                   "_UmAlQuraYearMonthDayCalculator__YEAR_START_DAYS"):
            d = getattr(UQ, nm)
            if isinstance(d, dict):
                setattr(UQ, nm, tuple(d[i] for i in range(len(d))))
        stubs.STUBS_IN_FORCE.append("tables:Um Al Qura month/year tables re-exposed as tuples (same contents, built by the real static initialiser)")
        if tabulate_months:
            ulo, uhi = (max(ymin, lo - 1), min(ymax, hi + 1)) if windowed else (ymin, ymax)
            real_dim, real_dsm = UQ._get_days_in_month, UQ._get_days_from_start_of_year_to_start_of_month
            dimT = {m: WindowTable(lambda y, m=m: real_dim(calc, y, m), ulo, uhi) for m in range(1, 13)}
            dsmT = {m: WindowTable(lambda y, m=m: real_dsm(calc, y, m), ulo, uhi) for m in range(1, 13)}
            if windowed:
                r_diy, r_start, r_leap = UQ._get_days_in_year, UQ._get_start_of_year_in_days, UQ._is_leap_year
                t_diy = WindowTable(lambda y: r_diy(calc, y), ulo - 1, uhi + 1)
                t_start = WindowTable(lambda y: r_start(calc, y), ulo - 1, uhi + 1)
                t_leap = WindowTable(lambda y: int(r_leap(calc, y)), ulo - 1, uhi + 1)
                register_patch(r_diy, lambda self, year: t_diy(year))
                register_patch(r_start, lambda self, year: t_start(year))
                register_patch(r_leap, lambda self, year: t_leap(year) == 1)

            def _m(month):
                from crosshair.core import realize
                m = realize(month)          # forks over the 12 months
                if not 1 <= m <= 12:
                    raise KeyError(m)
                return m
            register_patch(real_dim, lambda self, year, month: dimT[_m(month)](year))
            register_patch(real_dsm, lambda self, year, month: dsmT[_m(month)](year))
            stubs.STUBS_IN_FORCE.append("tabulated:Um Al Qura days-in-month and month starts for every (year, month) from the real code "
                                        "(their consistency with the year tables is C01.monthsum/split on the real functions)")
    if cal_id.startswith("Hijri") and windowed:
        tlo, thi = max(ymin - 1, lo - 6), min(ymax + 1, hi + 3)
        real_leap = type(calc)._is_leap_year
        real_start = type(calc)._calculate_start_of_year_days
        tleap = WindowTable(lambda y: int(real_leap(calc, y)), tlo, thi)
        tstart = WindowTable(lambda y: real_start(calc, y), tlo, thi)
        register_patch(real_leap, lambda self, year: tleap(year) == 1)
        register_patch(real_start, lambda self, year: tstart(year))
        stubs.STUBS_IN_FORCE.append(f"tabulated:{cal_id} leap flags and year starts for years {tlo}..{thi} from the real code "
                                    "(the closed forms are checked over the full range by C01.yearlen/getyear)")
    if cal_id.startswith("Hebrew") or cal_id == "Badi" or cal_id.startswith("Persian"):
        if not windowed:
            raise ValueError(cal_id + " needs a year window")
        below = 10 if cal_id.startswith("Hebrew") else 4   # _get_year's estimate undershoots by up to 7 years (Hebrew), 2 (Persian)
        tlo, thi = max(ymin - 1, lo - below), min(ymax + 1, hi + 3)
        if cal_id.startswith("Hebrew"):
            real = HS._HebrewScripturalCalculator__compute_cache_entry
            tab = WindowTable(lambda y: real(y), max(1, tlo), thi)
            register_patch(HS._HebrewScripturalCalculator__get_or_populate_cache.__func__, lambda cls, year: tab(year))
            stubs.STUBS_IN_FORCE.append(f"tabulated:_HebrewScripturalCalculator cache entry (elapsed days, year kind) for years {tab.lo}..{tab.hi} "
                                        "from the real __compute_cache_entry")
        elif cal_id == "Badi":
            real_start = calc._calculate_start_of_year_days
            tstart = WindowTable(lambda y: real_start(y), max(1, tlo), min(1000, thi))
            real_ha = BD._get_days_in_ayyami_ha.__func__
            tha = WindowTable(lambda y: real_ha(BD, y), max(1, tlo), min(1000, thi))
            register_patch(BD._calculate_start_of_year_days, lambda self, year: tstart(year))
            register_patch(real_ha, lambda cls, year: tha(year))
            stubs.STUBS_IN_FORCE.append(f"tabulated:Badi year starts and Ayyam-i-Ha lengths for years {tstart.lo}..{tstart.hi} from the real code")
        else:
            real_start = calc._get_start_of_year_in_days
            tstart = WindowTable(lambda y: real_start(y), tlo, thi)
            real_leap = type(calc)._is_leap_year
            tleap = WindowTable(lambda y: int(real_leap(calc, y)), tlo, thi)
            register_patch(PY._get_start_of_year_in_days, lambda self, year: tstart(year))
            register_patch(real_leap, lambda self, year: tleap(year) == 1)
            stubs.STUBS_IN_FORCE.append(f"tabulated:{cal_id} year starts and leap flags for years {tlo}..{thi} from the real code")
    _prepared[key] = (cal, calc, lo, hi)
    return _prepared[key]


def windows(cal_id, size=WINDOW):
    cal = CalendarSystem.for_id(cal_id)
    lo, hi = cal.min_year, cal.max_year
    out = []
    y = lo
    while y <= hi:
        out.append((y, min(hi, y + size - 1)))
        y += size
    return out


def P(cal_id, lo=None, hi=None):
    return cal_id if lo is None else f"{cal_id}|{lo}|{hi}"


def unP(p):
    bits = p.split("|")
    if len(bits) == 1:
        return bits[0], None, None
    return bits[0], int(bits[1]), int(bits[2])


def pick(seq, seed, k=1):
    """k seed-rotated elements of seq"""
    n = len(seq)
    if n == 0:
        return []
    return [seq[(seed * 7919 + j * (n // k + 1)) % n] for j in range(min(k, n))]


def reset_hebrew_cache():
    from pyoda_time.calendars._year_start_cache_entry import _YearStartCacheEntry
    with NoTracing():
        HS._HebrewScripturalCalculator__YEAR_CACHE.update(_YearStartCacheEntry._create_cache())
