"""DayCalendar: an abstract calculator whose dates ARE their day numbers, injected into a real CalendarSystem instance, so that
real LocalDate / LocalDateTime / OffsetDateTime / ZonedDateTime / DateInterval objects can be built from symbolic day numbers
without any day <-> (y, m, d) conversion.  Contract (proved for the real calendars by C01 and C09): dates are ordered by day
number, day -> date -> day is the identity inside [min_days, max_days] and rejected outside, plus_days(n) moves by n days."""
from pyoda_time import CalendarSystem, LocalDate
from symx import stubs
from symx.driver import assume


class DayYMD:
    def __init__(self, days):
        self.days = days

    def compare_to(self, o):
        return self.days - o.days

    def __eq__(self, o):
        return hasattr(o, "days") and not hasattr(o, "_calendar_ordinal") and self.days == o.days

    def __ne__(self, o):
        return not self == o

    def __lt__(self, o):
        return self.days < o.days

    def __le__(self, o):
        return self.days <= o.days

    def __gt__(self, o):
        return self.days > o.days

    def __ge__(self, o):
        return self.days >= o.days

    def __hash__(self):
        return 0

    def _with_calendar_ordinal(self, ordinal):
        return DayYMDC(self.days, ordinal)

    def _with_calendar(self, cal):
        return DayYMDC(self.days, cal._ordinal)


class DayYMDC:
    def __init__(self, days, ordinal):
        self.days, self._calendar_ordinal = days, ordinal

    def _to_year_month_day(self):
        return DayYMD(self.days)

    def __eq__(self, o):
        return hasattr(o, "_calendar_ordinal") and hasattr(o, "days") and self.days == o.days and int(self._calendar_ordinal) == int(o._calendar_ordinal)

    def __ne__(self, o):
        return not self == o

    def __hash__(self):
        return 0


class DayCalc:
    def __init__(self, host):
        self._min_year, self._max_year = host.min_year, host.max_year

    def _get_days_since_epoch(self, ymd):
        return ymd.days

    def compare(self, a, b):
        return a.compare_to(b)

    def _get_year_month_day(self, *, days_since_epoch=None, **kw):
        return DayYMD(days_since_epoch)

    def _get_year_month_day_from_days_since_epoch(self, d):
        return DayYMD(d)


_hosts = {}


def host(cal_id="Coptic"):
    """A real CalendarSystem object whose calculator is replaced by DayCalc (attribute injection on an object the harness owns)."""
    if cal_id not in _hosts:
        h = CalendarSystem.for_id(cal_id)
        h._CalendarSystem__year_month_day_calculator = DayCalc(h)
        _hosts[cal_id] = h
        stubs.STUBS_IN_FORCE.append(f"abstraction:DayCalendar injected into CalendarSystem '{cal_id}' (dates are day numbers; contract = C01 + C09.plusdays)")
    return _hosts[cal_id]


def date(h, days):
    assume(h._min_days <= days <= h._max_days)
    return LocalDate._ctor(year_month_day_calendar=DayYMDC(days, h._ordinal))


def days_of(d):
    return d._LocalDate__year_month_day_calendar.days


_contract = []


def install_plus_days_contract():
    """plus_days / plus_weeks on DayCalendar dates by contract (C09.plusdays_generic + C01): day number + n, OverflowError outside.
    Installed by assignment on the class (active in symbolic runs and in concrete replays alike); real dates fall through."""
    if _contract:
        return
    _contract.append(1)
    from pyoda_time.fields._fixed_length_date_period_field import _FixedLengthDatePeriodField as F
    real = F.add

    def add(self, local_date, value):
        ymdc = local_date._LocalDate__year_month_day_calendar
        if not hasattr(ymdc, "days"):
            return real(self, local_date, value)
        cal = local_date.calendar
        new = ymdc.days + value * self._FixedLengthDatePeriodField__unit_days
        if not (cal._min_days <= new <= cal._max_days):
            raise OverflowError("date computation leaves the calendar range")
        return LocalDate._ctor(year_month_day_calendar=DayYMDC(new, ymdc._calendar_ordinal))

    F.add = add
    stubs.STUBS_IN_FORCE.append("contract:_FixedLengthDatePeriodField.add on DayCalendar dates = day number + n, OverflowError outside the range (C09)")


def _real_record(days, ordinal):
    """the real (year, month, day, calendar) record of a day number, through the calendar's REAL day -> date conversion"""
    from pyoda_time import CalendarSystem
    from pyoda_time._calendar_ordinal import _CalendarOrdinal
    from props import ymdrecord
    calc = CalendarSystem._for_ordinal(_CalendarOrdinal(int(ordinal)))._year_month_day_calculator
    ymd = calc._get_year_month_day_from_days_since_epoch(days)
    return ymdrecord.YMDC(ymd._year, ymd._month, ymd._day, ordinal)


class _Lazy:
    """Known by its day number; anything else (year / month / day, record methods) is delegated on demand to the real record: only code
    that goes on to do month or year arithmetic on the result of plus_days needs it."""

    def _real_obj(self):
        raise NotImplementedError

    def __getattr__(self, name):
        if name.startswith("__"):
            raise AttributeError(name)
        real = self.__dict__.get("_real")
        if real is None:
            real = self.__dict__["_real"] = self._real_obj()
        return getattr(real, name)


class _DayYMD(_Lazy):
    def __init__(self, days, ordinal):
        self.days, self._ord = days, ordinal

    def _real_obj(self):
        return _real_record(self.days, self._ord)._to_year_month_day()


class _DayDate(_Lazy):
    """year-month-day-calendar record of a date known only by its day number (result of plus_days under the C09 contract)"""

    def __init__(self, days, ordinal):
        self.days, self._calendar_ordinal = days, ordinal

    def _to_year_month_day(self):
        return _DayYMD(self.days, self._calendar_ordinal)

    def _real_obj(self):
        return _real_record(self.days, self._calendar_ordinal)


_iso_plus_days_contract = []


def install_iso_plus_days_contract():
    """LocalDate.plus_days on ISO dates by contract (C09: the result is the date whose day number is the operand's + n, OverflowError
    outside the calendar's range); the result carries its day number only.  Assigned on the classes: in force in symbolic runs and
    concrete replays alike."""
    if _iso_plus_days_contract:
        return
    _iso_plus_days_contract.append(1)
    from pyoda_time import LocalDate
    from pyoda_time.calendars._gregorian_year_month_day_calculator import _GregorianYearMonthDayCalculator as G
    from pyoda_time.fields._fixed_length_date_period_field import _FixedLengthDatePeriodField as F
    real_dse = G._get_days_since_epoch

    def dse(self, ymd):
        return ymd.days if hasattr(ymd, "days") else real_dse(self, ymd)

    def add(self, local_date, value):
        cal = local_date.calendar
        new = local_date._days_since_epoch + value * self._FixedLengthDatePeriodField__unit_days
        if not (cal._min_days <= new <= cal._max_days):
            raise OverflowError("date computation leaves the calendar range")
        return LocalDate._ctor(year_month_day_calendar=_DayDate(new, cal._ordinal))
    G._get_days_since_epoch = dse
    F.add = add
    stubs.STUBS_IN_FORCE.append("contract:_FixedLengthDatePeriodField.add = day number + n (C09.plusdays on the real calendars); the result is known by its day number")
