"""DayCalendar: an abstract calculator whose dates ARE their day numbers, injected into a real CalendarSystem instance, so that
real LocalDate / LocalDateTime / OffsetDateTime / ZonedDateTime / DateInterval objects can be built from symbolic day numbers
without any day <-> (y, m, d) conversion.  Contract (proved for the real calendars by C01 and C09): dates are ordered by day
number, day -> date -> day is the identity inside [min_days, max_days] and rejected outside, plus_days(n) moves by n days."""
from pyoda_time import CalendarSystem, LocalDate
from symx import stubs
from symx.driver import assume


class DayYMD:
    def __init__(self, days):
        self.days = days

    def compare_to(self, o):
        return self.days - o.days

    def __eq__(self, o):
        return hasattr(o, "days") and not hasattr(o, "_calendar_ordinal") and self.days == o.days

    def __ne__(self, o):
        return not self == o

    def __lt__(self, o):
        return self.days < o.days

    def __le__(self, o):
        return self.days <= o.days

    def __gt__(self, o):
        return self.days > o.days

    def __ge__(self, o):
        return self.days >= o.days

    def __hash__(self):
        return 0

    def _with_calendar_ordinal(self, ordinal):
        return DayYMDC(self.days, ordinal)

    def _with_calendar(self, cal):
        return DayYMDC(self.days, cal._ordinal)


class DayYMDC:
    def __init__(self, days, ordinal):
        self.days, self._calendar_ordinal = days, ordinal

    def _to_year_month_day(self):
        return DayYMD(self.days)

    def __eq__(self, o):
        return hasattr(o, "_calendar_ordinal") and hasattr(o, "days") and self.days == o.days and int(self._calendar_ordinal) == int(o._calendar_ordinal)

    def __ne__(self, o):
        return not self == o

    def __hash__(self):
        return 0


class DayCalc:
    def __init__(self, host):
        self._min_year, self._max_year = host.min_year, host.max_year

    def _get_days_since_epoch(self, ymd):
        return ymd.days

    def compare(self, a, b):
        return a.compare_to(b)

    def _get_year_month_day(self, *, days_since_epoch=None, **kw):
        return DayYMD(days_since_epoch)

    def _get_year_month_day_from_days_since_epoch(self, d):
        return DayYMD(d)


_hosts = {}


def host(cal_id="Coptic"):
    """A real CalendarSystem object whose calculator is replaced by DayCalc (attribute injection on an object the harness owns)."""
    if cal_id not in _hosts:
        h = CalendarSystem.for_id(cal_id)
        h._CalendarSystem__year_month_day_calculator = DayCalc(h)
        _hosts[cal_id] = h
        stubs.STUBS_IN_FORCE.append(f"abstraction:DayCalendar injected into CalendarSystem '{cal_id}' (dates are day numbers; contract = C01 + C09.plusdays)")
    return _hosts[cal_id]


def date(h, days):
    assume(h._min_days <= days <= h._max_days)
    return LocalDate._ctor(year_month_day_calendar=DayYMDC(days, h._ordinal))


def days_of(d):
    return d._LocalDate__year_month_day_calendar.days


_contract = []


def install_plus_days_contract():
    """plus_days / plus_weeks on DayCalendar dates by contract (C09.plusdays_generic + C01): day number + n, OverflowError outside.
    Installed by assignment on the class (active in symbolic runs and in concrete replays alike); real dates fall through."""
    if _contract:
        return
    _contract.append(1)
    from pyoda_time.fields._fixed_length_date_period_field import _FixedLengthDatePeriodField as F
    real = F.add

    def add(self, local_date, value):
        ymdc = local_date._LocalDate__year_month_day_calendar
        if not hasattr(ymdc, "days"):
            return real(self, local_date, value)
        cal = local_date.calendar
        new = ymdc.days + value * self._FixedLengthDatePeriodField__unit_days
        if not (cal._min_days <= new <= cal._max_days):
            raise OverflowError("date computation leaves the calendar range")
        return LocalDate._ctor(year_month_day_calendar=DayYMDC(new, ymdc._calendar_ordinal))

    F.add = add
    stubs.STUBS_IN_FORCE.append("contract:_FixedLengthDatePeriodField.add on DayCalendar dates = day number + n, OverflowError outside the range (C09)")
