"""Shared float-kernel lemma: the fraction scaling in _ValueCursor._parse_fraction, decided in z3's IEEE-754 theory (symx.fpkernel)."""
import os

from symx import fpkernel as K
from symx.lemma import lemma

SRC = os.path.join(os.environ.get("VERIF_REPO", "/repo"), "pyoda_time", "text", "_value_cursor.py")
SCALE = 9


def _solve(count, budget):
    import z3
    node = K.find_int_call(SRC, "_parse_fraction", "result")
    r = z3.BitVec("result", 64)
    term = K.translate(node, {"result": K.IntSym(r), "scale": SCALE, "count": count})
    got = K.py_int(term)
    want = r * z3.BitVecVal(10 ** (SCALE - count), 64)
    dom = [r >= 0, r < 10 ** count]
    out = {"queries": 0, "unsat": 0, "unknown": 0, "solver_s": 0.0, "cex": None, "witnesses": [], "unknown_reasons": [],
           "functions": ["pyoda_time/text/_value_cursor.py:_ValueCursor._parse_fraction (statement `result = int(...)`, translated from the AST)"],
           "detail": f"QF_BVFP: result as signed 64-bit vector in [0, 10**{count}), Float64 RNE arithmetic, int() as round-toward-zero; "
                     f"concrete sub-expressions (math.pow of constants) evaluated by CPython"}
    # translator validation: the encoding evaluated on concrete operands equals CPython's evaluation of the same source expression
    for v in (0, 1, 10 ** count - 1, (10 ** count) // 3, 65 % (10 ** count)):
        res, _m, dt = K.solve(dom + [r == v, got != z3.BitVecVal(int(K.evaluate(node, {"result": v, "scale": SCALE, "count": count})), 64)], 20)
        out["queries"] += 1
        out["solver_s"] += dt
        if res != "unsat":
            out["unknown"] += 1
            out["unknown_reasons"].append(f"translator validation failed for result={v}: {res}")
            return out
        out["unsat"] += 1
        out["witnesses"].append({"digits": v})
    res, m, dt = K.solve(dom + [got != want], max(10, budget - 25))
    out["queries"] += 1
    out["solver_s"] += dt
    if res == "unsat":
        out["unsat"] += 1
    elif res == "sat":
        out["cex"] = {"digits": m[r].as_long()}
    else:
        out["unknown"] += 1
        out["unknown_reasons"].append(f"z3: {res} after {dt:.0f}s")
    return out


def declare():
    @lemma({"digits": int}, name="parse_fraction_kernel", params=list(range(1, 10)), budget=150, thorough_budget=600,
           smt=lambda P, budget: _solve(P, budget),
           bounds="the float kernel that scales a parsed fraction to nanoseconds, for EVERY digit string of the given length 1..9 "
                  "(every integer 0 <= digits < 10**count): int(<source expression>) == digits * 10**(9 - count) in IEEE-754 double "
                  "arithmetic; the counterexample is replayed by parsing the text through LocalTimePattern.extended_iso")
    def parse_fraction_kernel(P):
        from pyoda_time.text import LocalTimePattern

        def h(digits):
            if not (0 <= digits < 10 ** P):
                from crosshair.util import IgnoreAttempt
                raise IgnoreAttempt("outside the lemma's domain")
            text = "00:00:00." + str(digits).rjust(P, "0")
            r = LocalTimePattern.extended_iso.parse(text)
            return r.success and r.value.nanosecond_of_day == digits * 10 ** (9 - P)
        return h
    return parse_fraction_kernel
