"""Independent interpreter of the bundled Tzdb.nzd (reference for C06).

Written from the description of the "nzd" container in the Noda Time documentation (file = int32 version + fields
[id byte][7-bit varint length][payload]; string pool; zone payloads), NOT from the reader under test.  It works on plain ints
(nanoseconds since the Unix epoch, offsets in seconds) and plain calendar arithmetic (props.c02 reference formulas), and shares
no code with pyoda_time."""
import os

NS = 10 ** 9
NPD = 86400 * NS
RD_UNIX_EPOCH = 719163
MIN_T, MAX_T = "-inf", "+inf"

FIELD_STRING_POOL, FIELD_ZONE, FIELD_VERSION, FIELD_ID_MAP = 0, 1, 2, 3


def greg_leap(y):
    return y % 4 == 0 and (y % 100 != 0 or y % 400 == 0)


def fixed_from_gregorian(y, m, d):
    return (365 * (y - 1) + (y - 1) // 4 - (y - 1) // 100 + (y - 1) // 400 + (367 * m - 362) // 12
            + (0 if m <= 2 else (-1 if greg_leap(y) else -2)) + d)


def days_in_month(y, m):
    if m == 2:
        return 29 if greg_leap(y) else 28
    return 30 if m in (4, 6, 9, 11) else 31


EPOCH_1800_MIN = (fixed_from_gregorian(1800, 1, 1) - RD_UNIX_EPOCH) * 1440        # minutes from the Unix epoch to 1800-01-01T00:00Z


class Cur:
    def __init__(self, data, pool=None):
        self.b, self.i, self.pool = data, 0, pool

    def byte(self):
        v = self.b[self.i]
        self.i += 1
        return v

    def more(self):
        return self.i < len(self.b)

    def varint(self):
        r, shift = 0, 0
        while True:
            x = self.byte()
            r |= (x & 0x7F) << shift
            shift += 7
            if x < 0x80:
                return r

    def zigzag(self):
        v = self.varint()
        return (v >> 1) ^ -(v & 1)

    def string(self):
        if self.pool is not None:
            return self.pool[self.varint()]
        n = self.varint()
        s = bytes(self.b[self.i:self.i + n]).decode("utf-8")
        self.i += n
        return s

    def millis(self):
        """compact offset / time-of-day: 1 byte = half hours, 0b100 = minutes (13 bits), 0b101 = seconds (21), 0b110 = ms (29); biased by one day"""
        f = self.byte()
        if f & 0x80 == 0:
            v = f * 30 * 60000
        elif f & 0xE0 == 0x80:
            v = (((f & 0x1F) << 8) | self.byte()) * 60000
        elif f & 0xE0 == 0xA0:
            v = (((f & 0x1F) << 16) | (self.byte() << 8) | self.byte()) * 1000
        elif f & 0xE0 == 0xC0:
            v = ((f & 0x1F) << 24) | (self.byte() << 16) | (self.byte() << 8) | self.byte()
        else:
            raise ValueError("bad offset flag")
        return v - 86400000

    def transition(self, prev):
        """-> ns since the Unix epoch, or MIN_T / MAX_T"""
        v = self.varint()
        if v < 128:
            if v == 0:
                return MIN_T
            if v == 1:
                return MAX_T
            if v == 2:
                raw = 0
                for _ in range(8):
                    raw = (raw << 8) | self.byte()
                if raw >= 1 << 63:
                    raw -= 1 << 64
                return raw * 100                                  # ticks of 100 ns
            raise ValueError("bad marker")
        if v < 1 << 21:
            return prev + v * 3600 * NS                            # hours since the previous transition
        return (EPOCH_1800_MIN + v) * 60 * NS                      # minutes since 1800-01-01


def parse_file(path=None):
    path = path or os.path.join(os.environ.get("VERIF_REPO", "/repo"), "pyoda_time", "time_zones", "Tzdb.nzd")
    data = open(path, "rb").read()
    if int.from_bytes(data[:4], "little", signed=True) != 0:
        raise ValueError("version")
    c = Cur(data)
    c.i = 4
    fields = []
    while c.more():
        fid = c.byte()
        n = c.varint()
        fields.append((fid, data[c.i:c.i + n]))
        c.i += n
    pool = None
    out = {"zones": {}, "aliases": {}, "version": None}
    for fid, payload in fields:
        p = Cur(payload, None)
        if fid == FIELD_STRING_POOL:
            pool = [p.string() for _ in range(p.varint())]
        elif fid == FIELD_VERSION:
            out["version"] = p.string()
    for fid, payload in fields:
        p = Cur(payload, pool)
        if fid == FIELD_ID_MAP:
            for _ in range(p.varint()):
                k = p.string()
                out["aliases"][k] = p.string()
        elif fid == FIELD_ZONE:
            zid = p.string()
            out["zones"][zid] = parse_zone(p)
    return out


def parse_rule(p):
    flags = p.byte()
    return {"mode": flags >> 5, "dow": (flags >> 2) & 7, "advance": bool(flags & 2), "add_day": bool(flags & 1),
            "month": p.varint(), "dom": p.zigzag(), "tod_ms": p.millis()}


def parse_zone(p):
    kind = p.byte()
    if kind == 1:
        off = p.millis()
        return {"kind": "fixed", "offset_s": off // 1000, "name": p.string()}
    n = p.varint()
    periods = []
    start = p.transition(None)
    for _ in range(n):
        name = p.string()
        wall, sav = p.millis(), p.millis()
        end = p.transition(start if start not in (MIN_T, MAX_T) else None)
        periods.append({"name": name, "start": start, "end": end, "wall_s": wall // 1000, "savings_s": sav // 1000})
        start = end
    tail = None
    if p.byte() == 1:
        std = p.millis() // 1000
        std_name = p.string()
        std_rule = parse_rule(p)
        dst_name = p.string()
        dst_rule = parse_rule(p)
        sav = p.millis() // 1000
        tail = {"std_s": std, "std_name": std_name, "std_rule": std_rule, "dst_name": dst_name, "dst_rule": dst_rule, "savings_s": sav}
    return {"kind": "precalc", "periods": periods, "tail": tail}


# ------------------------------------------------------------------------------------------------ yearly rules, plain calendar arithmetic
MODE_UTC, MODE_WALL, MODE_STANDARD = 0, 1, 2


def rule_local_ns(rule, year):
    """local date-time (ns since the epoch on the local time line) at which the rule fires in `year`"""
    m, dom = rule["month"], rule["dom"]
    d = dom if dom > 0 else days_in_month(year, m) + dom + 1
    if m == 2 and dom == 29 and not greg_leap(year):
        d = 28
    rd = fixed_from_gregorian(year, m, d)
    if rule["dow"] != 0:
        cur = (rd - 1) % 7 + 1                                   # ISO weekday, Monday = 1
        # on-or-after / on-or-before the date, written without case analysis: the distance to the wanted weekday modulo 7
        if rule["advance"]:
            rd = rd + (rule["dow"] - cur) % 7
        else:
            rd = rd - (cur - rule["dow"]) % 7
    if rule["add_day"]:
        rd += 1
    return (rd - RD_UNIX_EPOCH) * NPD + rule["tod_ms"] * 10 ** 6


def rule_utc_ns(rule, year, std_s, savings_before_s):
    off = {MODE_UTC: 0, MODE_STANDARD: std_s, MODE_WALL: std_s + savings_before_s}[rule["mode"]]
    return rule_local_ns(rule, year) - off * NS


def tail_transitions(tail, y0, y1):
    """sorted [(utc ns, name after, wall seconds after, savings seconds after)] generated by the two yearly rules in years y0..y1"""
    out = []
    for y in range(y0, y1 + 1):
        # the DST rule fires while standard time is in force (no savings before); the standard rule while DST is (savings before)
        out.append((rule_utc_ns(tail["dst_rule"], y, tail["std_s"], 0), tail["dst_name"], tail["std_s"] + tail["savings_s"], tail["savings_s"]))
        out.append((rule_utc_ns(tail["std_rule"], y, tail["std_s"], tail["savings_s"]), tail["std_name"], tail["std_s"], 0))
    out.sort()
    return out


def reference_intervals(zone, y0=None, y1=None):
    """[(start ns | MIN_T, end ns | MAX_T, name, wall_s, savings_s)] of the whole zone; the tail expanded for years y0..y1"""
    if zone["kind"] == "fixed":
        return [(MIN_T, MAX_T, zone["name"], zone["offset_s"], 0)]
    ivs = [(p["start"], p["end"], p["name"], p["wall_s"], p["savings_s"]) for p in zone["periods"]]
    tail = zone["tail"]
    if tail is None or y0 is None:
        return ivs
    tail_start = ivs[-1][1]
    trans = tail_transitions(tail, y0 - 1, y1 + 1)
    # state at tail_start: the last transition at or before it
    before = [t for t in trans if t[0] <= tail_start]
    after = [t for t in trans if t[0] > tail_start]
    if not before:
        raise ValueError("tail expansion window does not reach back to the tail start")
    cur = before[-1]
    start = tail_start
    for t in after:
        ivs.append((start, t[0], cur[1], cur[2], cur[3]))
        start, cur = t[0], t
    return ivs


def tail_window_intervals(zone, y0, y1):
    """intervals between consecutive rule-generated transitions of years y0-1 .. y1+1 (far beyond the stored periods)"""
    trans = tail_transitions(zone["tail"], y0 - 1, y1 + 1)
    return [(a[0], b[0], a[1], a[2], a[3]) for a, b in zip(trans, trans[1:])]
