"""SymZone: a DateTimeZone over k real ZoneInterval objects whose boundaries and wall offsets are symbolic.
The real map_local / at_start_of_day / resolvers / ZonedDateTime / caching-map code runs against it.

Assumption carried by every lemma that uses it ("bounded zone intervals last at least MIN_INTERVAL_DAYS days") is a data premise
about the zones the library can actually serve; premise_interval_length() re-measures it from the bundled database on every run."""
from pyoda_time import DateTimeZone, Instant, Offset, PyodaConstants
from pyoda_time.time_zones import ZoneInterval
from symx import stubs
from symx.driver import assume

NPD = PyodaConstants.NANOSECONDS_PER_DAY
NS = 10 ** 9
MIN_INTERVAL_DAYS = 3
LO, HI = Instant._MIN_DAYS + 3, Instant._MAX_DAYS - 3


class SymZone(DateTimeZone):
    def __init__(self, intervals):
        super().__init__("sym", False, Offset.min_value, Offset.max_value)
        self.intervals = intervals
        self.queries = 0

    def get_zone_interval(self, instant):
        self.queries += 1
        for iv in self.intervals:
            if instant in iv:
                return iv
        raise AssertionError("SymZone: instant not covered")


def _split(total, tag):
    """(days, nano) with days*NPD + nano == total and 0 <= nano < NPD, as FRESH symbolic ints tied by an assumption: neither the
    constructor's normalisation branches nor div/mod terms enter the queries."""
    from crosshair.libimpl.builtinslib import SymbolicInt
    from crosshair.tracers import NoTracing, is_tracing
    if not is_tracing():                                # concrete replay: plain arithmetic
        return total // NPD, total % NPD
    with NoTracing():
        concrete = not isinstance(total, SymbolicInt)    # (type() lies under tracing: it reports int for symbolic ints)
    if concrete:
        return total // NPD, total % NPD
    with NoTracing():
        d, n = SymbolicInt("sz_d_" + tag), SymbolicInt("sz_n_" + tag)
    assume(0 <= n < NPD)
    assume(d * NPD + n == total)
    return d, n


def _fast_interval(name, start_total, end_total, offset_s, savings_s):
    """A real ZoneInterval object whose private fields are set directly (no constructor branches): local start/end = start/end +
    wall offset.  That the real constructor produces exactly these fields is lemma C04.zoneinterval_ctor."""
    from pyoda_time._duration import Duration
    from pyoda_time._local_instant import _LocalInstant
    iv = object.__new__(ZoneInterval)
    iv._ZoneInterval__name = name
    iv._ZoneInterval__wall_offset = Offset._ctor(seconds=offset_s)
    iv._ZoneInterval__savings = Offset._ctor(seconds=savings_s)
    if start_total is None:
        iv._ZoneInterval__raw_start = Instant._before_min_value()
        iv._ZoneInterval__local_start = _LocalInstant.before_min_value()
    else:
        d, n = _split(start_total, name + "s")
        iv._ZoneInterval__raw_start = Instant._ctor(days=d, nano_of_day=n)
        d, n = _split(start_total + offset_s * NS, name + "ls")
        iv._ZoneInterval__local_start = _LocalInstant._ctor(days=d, nano_of_day=n)
    if end_total is None:
        iv._ZoneInterval__raw_end = Instant._after_max_value()
        iv._ZoneInterval__local_end = _LocalInstant.after_max_value()
    else:
        d, n = _split(end_total, name + "e")
        iv._ZoneInterval__raw_end = Instant._ctor(days=d, nano_of_day=n)
        d, n = _split(end_total + offset_s * NS, name + "le")
        iv._ZoneInterval__local_end = _LocalInstant._ctor(days=d, nano_of_day=n)
    return iv


def make(bounds, offsets, savings=None, fast=True):
    """bounds: list of k-1 (days, nano) symbolic pairs (increasing, >= MIN_INTERVAL_DAYS apart); offsets: k symbolic seconds in +-18h."""
    k = len(offsets)
    T = []
    for (d, n) in bounds:
        assume(LO <= d <= HI)
        assume(0 <= n < NPD)
        T.append(d * NPD + n)
    for i in range(1, len(T)):
        assume(T[i] - T[i - 1] >= MIN_INTERVAL_DAYS * NPD)
    for o in offsets:
        assume(-64800 <= o <= 64800)
    ivs = []
    if fast:
        for i in range(k):
            ivs.append(_fast_interval("iv%d" % i, T[i - 1] if i > 0 else None, T[i] if i < k - 1 else None, offsets[i],
                                      savings[i] if savings else 0))
        return SymZone(ivs), T
    inst = [Instant._ctor(days=d, nano_of_day=n) for (d, n) in bounds]
    for i in range(k):
        ivs.append(ZoneInterval(name="iv%d" % i, start=inst[i - 1] if i > 0 else None, end=inst[i] if i < k - 1 else None,
                                wall_offset=Offset.from_seconds(offsets[i]),
                                savings=Offset.from_seconds(savings[i]) if savings else Offset.zero))
    return SymZone(ivs), T


stubs.STUBS_IN_FORCE.append(f"abstraction:SymZone (k real ZoneIntervals with symbolic boundaries/offsets; bounded intervals >= {MIN_INTERVAL_DAYS} days: "
                            "data premise re-measured from the bundled tz database each run)")


def premise_interval_length():
    """Shortest bounded zone interval in the bundled database up to year 2100 (rules repeat yearly after the precalculated part)."""
    from pyoda_time import DateTimeZoneProviders
    prov = DateTimeZoneProviders.tzdb
    end = Instant.from_utc(2100, 1, 1, 0, 0)
    worst = None
    for zid in prov.ids:
        z = prov[zid]
        iv = z.get_zone_interval(Instant.min_value)
        while iv.has_end and iv.end < end:
            if iv.has_start:
                dur = (iv.end - iv.start).to_nanoseconds()
                if worst is None or dur < worst[0]:
                    worst = (dur, zid, str(iv.start))
            iv = z.get_zone_interval(iv.end)
    ok = worst[0] >= MIN_INTERVAL_DAYS * NPD
    return ok, f"shortest bounded interval: {worst[0] / NPD:.2f} days ({worst[1]} from {worst[2]}); assumed >= {MIN_INTERVAL_DAYS} days"
