"""Record abstraction of _YearMonthDay / _YearMonthDayCalendar: the bit-packed value is replaced by an unpacked record with the
same interface.  Contract (proved on the real classes by C01.pack_* lemmas): for years in [-9999, 10000], months in [1, 32],
days in [1, 64] and ordinals in [0, 63], packing then unpacking is the identity, conversions between the two classes keep the
fields, and comparison of packed values is the lexicographic (year, month, day) comparison.  Removes div/mod-by-2**k reasoning
from every query that merely passes dates around."""
from crosshair.core import register_patch

from pyoda_time._calendar_ordinal import _CalendarOrdinal
from pyoda_time._year_month_day import _YearMonthDay
from pyoda_time._year_month_day_calendar import _YearMonthDayCalendar
from symx import stubs


def _cmp(a, b):
    if a._year != b._year:
        return -1 if a._year < b._year else 1
    if a._month != b._month:
        return -1 if a._month < b._month else 1
    if a._day != b._day:
        return -1 if a._day < b._day else 1
    return 0


class YMD:
    __class__ = property(lambda s: _YearMonthDay)  # the real classes are sealed; isinstance() falls back to __class__

    def __new__(cls, year, month, day):
        self = object.__new__(cls)
        self._y, self._m, self._d = year, month, day
        return self

    def __init__(self, *a):
        pass

    _year = property(lambda s: s._y)
    _month = property(lambda s: s._m)
    _day = property(lambda s: s._d)

    def _with_calendar(self, calendar):
        return YMDC(self._y, self._m, self._d, calendar._ordinal)

    def _with_calendar_ordinal(self, o):
        return YMDC(self._y, self._m, self._d, o)

    def compare_to(self, other):
        if other is None:
            return 1
        return _cmp(self, other)

    def equals(self, other):
        return _cmp(self, other) == 0

    def __hash__(self):
        return 0

    def __eq__(self, o):
        return hasattr(o, "_year") and not hasattr(o, "_calendar_ordinal") and _cmp(self, o) == 0

    def __ne__(self, o):
        return not (self == o)

    def __lt__(self, o):
        return _cmp(self, o) < 0

    def __le__(self, o):
        return _cmp(self, o) <= 0

    def __gt__(self, o):
        return _cmp(self, o) > 0

    def __ge__(self, o):
        return _cmp(self, o) >= 0


class YMDC:
    __class__ = property(lambda s: _YearMonthDayCalendar)

    def __new__(cls, year, month, day, ordinal):
        self = object.__new__(cls)
        self._y, self._m, self._d, self._o = year, month, day, ordinal
        return self

    def __init__(self, *a):
        pass

    _year = property(lambda s: s._y)
    _month = property(lambda s: s._m)
    _day = property(lambda s: s._d)
    _calendar_ordinal = property(lambda s: s._o)

    def _to_year_month_day(self):
        return YMD(self._y, self._m, self._d)

    def __eq__(self, o):
        return hasattr(o, "_calendar_ordinal") and _cmp(self, o) == 0 and int(self._o) == int(o._calendar_ordinal)

    def equals(self, o):
        return self == o

    def __hash__(self):
        return 0


_done = []


def install():
    if _done:
        return
    _done.append(1)

    def ymd_ctor(cls, *, raw_value=None, year=None, month=None, day=None):
        if raw_value is not None:
            raise AssertionError("record abstraction: raw packed value requested")
        return YMD(year, month, day)

    def ymdc_ctor(cls, *, year_month_day=None, calendar_ordinal=None, year=None, month=None, day=None):
        if year_month_day is not None:
            raise AssertionError("record abstraction: raw packed value requested")
        return YMDC(year, month, day, calendar_ordinal)

    register_patch(_YearMonthDay._ctor.__func__, ymd_ctor)
    register_patch(_YearMonthDayCalendar._ctor.__func__, ymdc_ctor)
    stubs.STUBS_IN_FORCE.append("abstraction:_YearMonthDay/_YearMonthDayCalendar as unpacked records (contract = C01.pack_* on the real bit-packed classes)")
