"""Shared lemma: ZonedDateTime + Duration over a symbolic zone (claimed by C05 - the zone mapping - and by C11 - instant, offset,
calendar and zone stay in step)."""
from symx import stubs
from symx.driver import assume
from symx.lemma import lemma

from props import daycal, symzone
from props.symzone import NPD
from pyoda_time import Duration, Instant, ZonedDateTime


def _zone_args(k, extra):
    a = {}
    for i in range(1, k):
        a[f"d{i}"] = int
        a[f"n{i}"] = int
    for i in range(k):
        a[f"o{i}"] = int
    a.update(extra)
    return a


def _H():
    daycal.install_plus_days_contract()
    return daycal.host("Coptic")


def _zdt_total(z):
    t = z.to_instant()._time_since_epoch
    return t._floor_days * NPD + t._nanosecond_of_floor_day


def declare():
    @lemma(_zone_args(2, {"td": int, "tn": int, "dd": int, "dn": int}), name="zdt_plus_duration", params=[[sg, side] for sg in ("+", "+neg") for side in ("before", "after")] + [["+", side, fx] for side in ("before", "after") for fx in (3600, -16200, 64800)], budget=400, per_path=120,
           bounds="ZonedDateTime + Duration (|.| <= 4 days, both signs) in every zone of 2 intervals (any transition, any offsets), on the "
                  "DayCalendar: the result's instant is exactly instant + duration, its offset is the zone's wall offset at that new instant, "
                  "its local date and time of day are that instant shifted by that offset, and calendar and zone are retained; the instant read "
                  "back through to_instant is asserted in the six instances whose result-side offset is concrete (+1h, -4h30, +18h)")
    def zdt_plus_duration(PS):
        P, side = PS[0], PS[1]
        fixed = PS[2] if len(PS) > 2 else None

        def h(d1, n1, o0, o1, td, tn, dd, dn):
            host = _H()
            if fixed is not None:                          # the offset in force at the result is concrete (the other one stays symbolic)
                if side == "before":
                    assume(o0 == fixed)
                    o0 = fixed
                else:
                    assume(o1 == fixed)
                    o1 = fixed
            zone, T = symzone.make([(d1, n1)], [o0, o1])
            assume(symzone.LO + 45 <= td <= symzone.HI - 45)
            assume(host._min_days + 45 <= td <= host._max_days - 45)
            assume(0 <= tn < NPD)
            assume(-3 <= dd <= 3)
            assume(0 <= dn < NPD)
            t = Instant._ctor(days=td, nano_of_day=tn)
            z = ZonedDateTime(instant=t, zone=zone, calendar=host)
            dur = Duration._ctor(days=dd, nano_of_day=dn)
            if P != "+":
                dur = -dur                                 # (the port offers no ZonedDateTime - Duration operator)
            r = z + dur
            want = td * NPD + tn + (1 if P == "+" else -1) * (dd * NPD + dn)
            assume((want < T[0]) == (side == "before"))            # partition: the result lies before / after the zone's transition
            off = o0 if side == "before" else o1
            local = want + off * 10 ** 9
            ok = (r.offset.seconds == off and r.calendar is host and r.zone is zone
                  and daycal.days_of(r.date) == local // NPD and r.time_of_day.nanosecond_of_day == local % NPD)
            # the instant read back through to_instant (local - offset: C11.odt_ctor's subject) is asserted in the instances whose result
            # offset is concrete (+1h, -4h30, +18h): with a symbolic offset that one extra query sits at the solver's time limit
            # (decided in 50 s by some builds of this harness, unknown after unrelated edits)
            return ok and (fixed is None or _zdt_total(r) == want)
        return h
    return zdt_plus_duration
