#!/bin/sh
# Build the verification environment offline: an overlay venv on top of /venv with crosshair-tool (+ z3, cvc5) from the wheelhouse.
# Idempotent; every check calls it too (only committed files survive a restore).
set -e
cd "$(dirname "$0")"
V=/verif/.venv
if [ ! -x "$V/bin/python" ] || ! "$V/bin/python" -c "import crosshair, z3" 2>/dev/null; then
  (
    flock 9
    if [ ! -x "$V/bin/python" ] || ! "$V/bin/python" -c "import crosshair, z3" 2>/dev/null; then
      rm -rf "$V"
      /venv/bin/python -m venv "$V"
      SP=$("$V/bin/python" -c "import sysconfig; print(sysconfig.get_paths()['purelib'])")
      printf "import site; site.addsitedir('/venv/lib/python3.12/site-packages')\n" > "$SP/_verif_overlay.pth"
      PIP_NO_INDEX=1 "$V/bin/pip" install -q --no-index --find-links /opt/veriftools/wheels crosshair-tool cvc5 jsonschema >/dev/null 2>&1 || \
      PIP_NO_INDEX=1 "$V/bin/pip" install -q --no-index --find-links /opt/veriftools/wheels crosshair-tool
    fi
  ) 9>/tmp/.verif-setup.lock
fi
"$V/bin/python" -c "import crosshair, z3; print('verif env ok: crosshair', crosshair.__version__ if hasattr(crosshair,'__version__') else '?', 'z3', z3.get_version_string())"
