"""./check <ID> --tier quick|thorough   |   ./check --replay <file>

Runs every lemma instance of a property in its own worker process (16-way), replays counterexamples and witnesses
concretely, applies the known-findings policy, writes evidence/<ID>.json and sets the exit code:
  0  nothing violated outside the known findings (INCONCLUSIVE lemmas are listed, never counted as discharged)
  1  at least one reproduced violation  (line `VIOLATION property=<id> replay=<path>`)
  3  harness error (a counterexample or witness that does not reproduce concretely, a crashed worker)
"""
from __future__ import annotations

import argparse
import json
import os
import subprocess
import sys
import time
from concurrent.futures import ThreadPoolExecutor

from . import env
from .lemma import instance_key, replay_hash

VERIF = env.VERIF
PY = os.path.join(VERIF, ".venv", "bin", "python")
NCPU = int(os.environ.get("VERIF_JOBS", os.cpu_count() or 4))


def _worker(argv, timeout):
    e = env.icu_env()
    e["PYTHONPATH"] = VERIF
    e["PYTHONHASHSEED"] = "0"
    e.setdefault("PYTHONDONTWRITEBYTECODE", "1")
    try:
        p = subprocess.run([PY, "-m", "symx.worker"] + argv, cwd=VERIF, env=e, capture_output=True, text=True, timeout=timeout)
    except subprocess.TimeoutExpired as ex:
        return None, f"worker killed after {timeout}s; stdout tail: {(ex.stdout or b'')[-500:]!r}"
    for line in reversed(p.stdout.splitlines()):
        if line.startswith("RESULT "):
            return json.loads(line[7:]), p.stderr[-2000:]
    return None, f"no RESULT line; rc={p.returncode}; stderr tail: {p.stderr[-3000:]}; stdout tail: {p.stdout[-500:]}"


def list_jobs(prop, tier, seed):
    out, err = _worker(["list", prop, tier, str(seed)], 300)
    if out is None:
        raise SystemExit(f"HARNESS-ERROR: cannot list lemmas of {prop}: {err}")
    return out


def run_job(prop, job, tier, seed):
    budget = float(job["budget"])
    out, err = _worker(["run", prop, job["name"], json.dumps(job["P"]), tier, str(seed), str(budget)], budget * 2 + 120)
    key = instance_key(job["name"], job["P"])
    if out is None:
        return {"property": prop, "lemma": key, "verdict": "HARNESS-ERROR", "detail": err, "job": job}
    out["job"] = job
    out["budget"] = budget
    # concrete replays in a fresh process
    if out.get("verdict") == "CEX-UNREPLAYED":
        rep, rerr = _worker(["replay", prop, job["name"], json.dumps(job["P"]), json.dumps([out["cex"]])], 600)
        if isinstance(rep, list) and rep and rep[0]["fails"]:
            out["verdict"] = "VIOLATION"
            out["replay_detail"] = rep[0]["detail"]
        else:
            out["verdict"] = "HARNESS-ERROR"
            out["detail"] = f"counterexample {out['cex']} does not reproduce concretely: {rep or rerr}"
    ws = out.get("witnesses") or []
    out["witnesses_validated"] = 0
    if ws and out.get("verdict") in ("HOLDS", "INCONCLUSIVE"):
        rep, rerr = _worker(["replay", prop, job["name"], json.dumps(job["P"]), json.dumps(ws)], 600)
        if isinstance(rep, list):
            bad = [(w, r) for w, r in zip(ws, rep) if r["fails"]]
            out["witnesses_validated"] = sum(1 for r in rep if r["fails"] is False)
            if bad:
                out["verdict"] = "HARNESS-ERROR"
                out["detail"] = f"witness of a confirmed path fails concretely (model/stub mismatch): {bad[0]}"
        else:
            out["witness_replay_error"] = str(rep or rerr)[:500]
    return out


def write_replay(prop, r):
    d = os.path.join(VERIF, "replays")
    os.makedirs(d, exist_ok=True)
    h = replay_hash(prop, r["lemma"], r.get("cex"))
    path = os.path.join(d, f"{prop}-{h}.json")
    json.dump({"property": prop, "lemma": r["job"]["name"], "P": r["job"]["P"], "args": r.get("cex"), "exc": r.get("exc"),
               "detail": r.get("replay_detail")}, open(path, "w"), indent=1)
    return path


def do_replay(path):
    rec = json.load(open(path))
    rep, err = _worker(["replay", rec["property"], rec["lemma"], json.dumps(rec["P"]), json.dumps([rec["args"]])], 600)
    print(json.dumps({"replay": path, "result": rep, "stderr": (err or "")[-300:]}, indent=1))
    if isinstance(rep, list) and rep and rep[0]["fails"]:
        print(f"VIOLATION property={rec['property']} replay={path}")
        return 1
    return 0


def main(argv=None):
    ap = argparse.ArgumentParser()
    ap.add_argument("prop", nargs="?")
    ap.add_argument("--tier", default=os.environ.get("VERIF_TIER", "quick"))
    ap.add_argument("--replay")
    ap.add_argument("--only", help="comma-separated lemma-name substrings")
    ap.add_argument("--no-evidence", action="store_true")
    ap.add_argument("--max-wall", type=float, default=float(os.environ.get("VERIF_MAX_WALL", "0")),
                    help="wall-clock cap in seconds (default: none for quick, 1500 for thorough): instances not started by then are reported NOT-RUN")
    a = ap.parse_args(argv)
    if a.replay:
        return do_replay(a.replay)
    prop = a.prop.upper()
    tier = a.tier if a.tier in ("quick", "thorough") else "quick"
    try:
        seed = int(os.environ.get("VERIF_SEED", "0"))
    except ValueError:
        seed = 0
    t0 = time.time()
    jobs = list_jobs(prop, tier, seed)
    if a.only:
        subs = a.only.split(",")
        jobs = [j for j in jobs if any(s in instance_key(j["name"], j["P"]) for s in subs)]
    jobs.sort(key=lambda j: -float(j["budget"]))
    max_wall = a.max_wall or (1500.0 if tier == "thorough" else 0.0)
    if tier == "thorough":
        # the instances the quick tier runs go first, the rest in a seed-dependent order: under the wall cap every run still covers
        # the quick tier and a different part of the remainder per seed
        quick_keys = {instance_key(j["name"], j["P"]) for j in list_jobs(prop, "quick", seed)}
        import hashlib as _h
        jobs.sort(key=lambda j: (instance_key(j["name"], j["P"]) not in quick_keys,
                                 _h.sha1(f"{seed}:{instance_key(j['name'], j['P'])}".encode()).hexdigest()))

    def run_or_skip(j):
        if max_wall and time.time() - t0 > max_wall:
            return {"property": prop, "lemma": instance_key(j["name"], j["P"]), "verdict": "NOT-RUN", "premise": j.get("premise"),
                    "bounds": j.get("bounds"), "job": j, "wall": 0.0}
        return run_job(prop, j, tier, seed)
    with ThreadPoolExecutor(NCPU) as ex:
        results = list(ex.map(run_or_skip, jobs))
    not_run = [r for r in results if r.get("verdict") == "NOT-RUN"]
    results = [r for r in results if r.get("verdict") != "NOT-RUN"]
    rc = 0
    lines = []
    viol = 0
    for r in results:
        v = r.get("verdict")
        for kf in r.get("known_findings") or []:
            if kf["still_fails"]:
                print(f"KNOWN-FINDING: property={prop} {kf['what']} [{r['lemma']}]")
        if v == "VIOLATION":
            path = write_replay(prop, r)
            viol += 1
            print(f"VIOLATION property={prop} replay={path}")
            print(f"  lemma={r['lemma']} args={r.get('cex')} exc={(r.get('exc') or [None])[0]} detail={r.get('replay_detail')}")
            rc = max(rc, 1)
        elif v == "PREMISE-FAILED":
            # a failed concrete premise is a concrete failing run against the real code
            r["cex"] = {"premise": r.get("detail")}
            path = write_replay(prop, r)
            viol += 1
            print(f"VIOLATION property={prop} replay={path}")
            print(f"  premise={r['lemma']} detail={r.get('detail')}")
            rc = max(rc, 1)
        elif v == "HARNESS-ERROR":
            print(f"HARNESS-ERROR lemma={r['lemma']}: {str(r.get('detail'))[:1500]}")
            rc = max(rc, 3) if rc != 1 else 1
        lines.append(f"  {v:13s} {r['lemma']:60s} paths={r.get('paths', '-')} conf={r.get('confirmed', '-')} ign={r.get('ignored', '-')} "
                     f"unk={r.get('unknown', '-')} q={r.get('solver_queries', '-')} wall={r.get('wall', 0):.1f}s")
    print(f"{prop} tier={tier} seed={seed}: {len(results)} lemma instances, wall {time.time() - t0:.1f}s"
          + (f"; {len(not_run)} further instances NOT RUN (wall cap {max_wall:.0f}s) - outside this run's claim" if not_run else ""))
    print("\n".join(lines))
    if not a.no_evidence and not a.only:
        write_evidence(prop, tier, seed, results, time.time() - t0, viol, not_run=[r["lemma"] for r in not_run])
    elif not a.no_evidence:
        write_evidence(prop, tier, seed, results, time.time() - t0, viol, partial=a.only, not_run=[r["lemma"] for r in not_run])
    return rc


def write_evidence(prop, tier, seed, results, wall, viol, partial=None, not_run=()):
    sym = [r for r in results if not r.get("premise") and r.get("verdict") != "HARNESS-ERROR"]
    prem = [r for r in results if r.get("premise")]
    holds = [r for r in sym if r["verdict"] == "HOLDS"]
    incon = [r for r in sym if r["verdict"] == "INCONCLUSIVE"]
    fns = sorted({f for r in sym for f in (r.get("functions") or [])})
    stubs = sorted({s for r in sym for s in (r.get("stubs") or [])})
    samples = []
    for r in sym:
        for w in (r.get("witnesses") or [])[:1]:
            samples.append({"lemma": r["lemma"], "confirmed_path_witness": w})
        if r.get("cex") is not None:
            samples.append({"lemma": r["lemma"], "counterexample": r["cex"], "verdict": r["verdict"]})
    samples = samples[:60] or [{"note": "no symbolic lemma produced a witness"}]
    cov = {
        "states": max(1, sum(r.get("paths", 0) for r in sym)),
        "transitions": max(1, sum(r.get("solver_queries", 0) for r in sym)),
        "traces_validated_against_impl": sum(r.get("witnesses_validated", 0) for r in sym)
        + sum(1 for r in sym if r["verdict"] == "VIOLATION"),
        "samples": samples,
        "obligations": len(sym),
        "discharged": len(holds),
        "exhaustive": False,
        "paths_confirmed": sum(r.get("confirmed", 0) for r in sym),
        "paths_rejected_by_assumptions": sum(r.get("ignored", 0) for r in sym),
        "paths_unknown": sum(r.get("unknown", 0) for r in sym),
        "solver_queries": sum(r.get("solver_queries", 0) for r in sym),
        "solver_s": round(sum(r.get("solver_s", 0.0) for r in sym), 2),
        "functions_encoded": fns,
        "lemmas": [{"lemma": r["lemma"], "verdict": r["verdict"], "bounds": r.get("bounds"), "paths": r.get("paths"),
                    "confirmed": r.get("confirmed"), "rejected": r.get("ignored"), "unknown": r.get("unknown"),
                    "exhausted": r.get("exhausted"), "solver_queries": r.get("solver_queries"),
                    "solver_s": round(r.get("solver_s", 0.0), 2), "wall_s": round(r.get("wall", 0.0), 1),
                    "budget_cpu_s": r.get("budget"), "excluded_known_regions": r.get("excluded_regions"),
                    "plugin_rewrites": r.get("plugin_stats"), "unknown_reasons": r.get("unknown_reasons")} for r in sym],
        "inconclusive": [r["lemma"] for r in incon],
        "not_run_within_wall_cap": {"count": len(not_run), "first": list(not_run)[:40],
                                    "note": "instances scheduled for this tier but not started before the wall cap: outside this run's claim"},
        "premises_concrete": [{"premise": r["lemma"], "verdict": r["verdict"], "detail": str(r.get("detail"))[:400],
                               "decided_by": "concrete-enumeration (labelled premise, not counted in discharged)"} for r in prem],
        "harness_errors": [{"lemma": r["lemma"], "detail": str(r.get("detail"))[:400]} for r in results
                           if r.get("verdict") == "HARNESS-ERROR"],
        "known_findings_confirmed": [kf for r in results for kf in (r.get("known_findings") or [])],
        "checker_cmd": f"./check {prop} --tier {tier}" + (f" --only {partial}" if partial else ""),
        "engine": "CrossHair 0.0.110 core (symbolic proxies, bytecode tracer, path tree) driven by symx.driver; z3 "
                  + _z3v() + "; encoding regenerated from /repo's working tree at run time",
    }
    ev = {
        "property_id": prop, "tier": tier, "seed": seed, "level": "model_checking", "coverage": cov,
        "assumptions": stubs + ["ICU mode: " + (results[0].get("icu", "?") if results else "?"),
                                "verdict HOLDS only when the path tree is exhausted with every path confirmed inside the lemma's stated bounds",
                                "CPython semantics of int/str/list as modelled by CrossHair; z3 is trusted"],
        "wall_s": round(wall, 2), "violations": viol,
    }
    os.makedirs(os.path.join(VERIF, "evidence"), exist_ok=True)
    path = os.path.join(VERIF, "evidence", f"{prop}.json")
    try:
        import jsonschema
        schema = json.load(open("/root/.vp/EVIDENCE.schema.json"))
        jsonschema.validate(ev, schema)
    except ImportError:
        pass
    except FileNotFoundError:
        pass
    json.dump(ev, open(path, "w"), indent=1, default=repr)


def _z3v():
    try:
        import z3
        return z3.get_version_string()
    except Exception:
        return "?"


if __name__ == "__main__":
    sys.exit(main())
