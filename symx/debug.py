"""python -m symx.debug C03 lemma_name 'param-json' [budget] : run one lemma instance in-process and print everything."""
import json, sys
from symx import env
env.bootstrap()
import importlib
from symx import lemma as L, driver, stubs
prop, name = sys.argv[1], sys.argv[2]
P = json.loads(sys.argv[3]) if len(sys.argv) > 3 else None
budget = float(sys.argv[4]) if len(sys.argv) > 4 else 60
importlib.import_module(f"props.{prop.lower()}")
lem = L.REGISTRY[name]
h, before = L._build(lem, P)
res = driver.explore(h, lem.args, timeout=budget, per_path_timeout=lem.per_path, before_path=before)
print(res)
print("unknown reasons:", res.unknown_reasons)
print("witnesses:", res.witnesses)
print("plugins:", stubs.bitops.STATS, stubs.arith.STATS, stubs.fmtint.STATS)
print("functions:", len(res.functions)); [print("  ", f) for f in res.functions[:80]]
