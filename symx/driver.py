"""Exploration driver: exhaustive, path-by-path symbolic execution of a harness over the repository's real code.

Engine = CrossHair 0.0.110 core (symbolic proxies, bytecode tracer, path tree) + z3; this module owns the loop, the verdict
and the bookkeeping (paths / solver queries / functions reached / witnesses).  A harness is a plain function of symbolic
arguments returning truthy when the property holds on the path; `assume()` discards a path; any escaping `Exception`
is a counterexample.
"""
from __future__ import annotations

import time
import traceback
from time import process_time

import z3
from crosshair.condition_parser import condition_parser
from crosshair.core import ExceptionFilter, Patched, deep_realize, proxy_for_type
from crosshair.core_and_libs import NoTracing, ResumedTracing  # noqa: F401  (core_and_libs registers the std-lib models)
from crosshair.options import AnalysisKind
from crosshair.statespace import CallAnalysis, RootNode, StateSpace, StateSpaceContext, VerificationStatus
from crosshair.tracers import COMPOSITE_TRACER, TracingModule
from crosshair.util import CrossHairInternal, IgnoreAttempt, NotDeterministic, UnexploredPath

from . import env

# ---------------------------------------------------------------------------------------------------------------------
# solver accounting: every z3 check issued through a Solver object is counted and timed
SOLVER = {"queries": 0, "seconds": 0.0, "unknown": 0}
_orig_check = z3.Solver.check


def _timed_check(self, *a):
    t = time.perf_counter()
    r = _orig_check(self, *a)
    SOLVER["seconds"] += time.perf_counter() - t
    SOLVER["queries"] += 1
    if r == z3.unknown:
        SOLVER["unknown"] += 1
    return r


z3.Solver.check = _timed_check


class _Coverage(TracingModule):
    """Records which functions defined under REPO were entered while tracing (= symbolically executed)."""

    def __init__(self):
        self.seen = set()
        self.prefix = env.REPO.rstrip("/") + "/"

    def trace_call(self, frame, fn, binding_target):
        code = getattr(fn, "__code__", None)
        if code is not None and code not in self.seen and code.co_filename.startswith(self.prefix):
            self.seen.add(code)
        return None

    def names(self):
        out = set()
        for c in self.seen:
            out.add(c.co_filename[len(self.prefix):] + ":" + getattr(c, "co_qualname", c.co_name))
        return sorted(out)


class Result:
    def __init__(self):
        self.paths = 0
        self.confirmed = 0
        self.unknown = 0
        self.ignored = 0
        self.refuted = 0
        self.nondeterministic = 0
        self.exhausted = False
        self.timed_out = False
        self.cex = None          # dict of realised args
        self.exc = None          # (type name, message, traceback tail) when the counterexample is an escaping exception
        self.witnesses = []      # realised args of some confirmed paths
        self.functions = []
        self.wall = 0.0
        self.solver_queries = 0
        self.solver_s = 0.0
        self.unknown_reasons = []

    @property
    def holds(self):
        return self.exhausted and self.refuted == 0 and self.unknown == 0 and self.nondeterministic == 0 and self.confirmed > 0

    def as_dict(self):
        d = dict(self.__dict__)
        d["holds"] = self.holds
        return d

    def __repr__(self):
        return (f"Result(paths={self.paths}, confirmed={self.confirmed}, ignored={self.ignored}, unknown={self.unknown}, "
                f"refuted={self.refuted}, exhausted={self.exhausted}, cex={self.cex}, exc={self.exc}, "
                f"queries={self.solver_queries}, solver_s={self.solver_s:.2f}, wall={self.wall:.2f})")


def make_symbolic(typ, name):
    """Fresh symbolic value.  int/bool/str are created directly: CrossHair's proxy_for_type adds a 'premature realisation'
    ParallelNode per argument, which turns the search into value enumeration as soon as one path is UNKNOWN."""
    from crosshair.libimpl.builtinslib import LazyIntSymbolicStr, SymbolicBool, SymbolicInt
    if typ is int:
        return SymbolicInt(name)
    if typ is bool:
        return SymbolicBool(name)
    if typ is str:
        return LazyIntSymbolicStr(name)
    return proxy_for_type(typ, name)


def assume(c):
    """Discard the current path unless c holds (placed before the code it constrains)."""
    if not c:
        raise IgnoreAttempt("assume")


def _jsonable(v):
    if isinstance(v, (bool, int, str, type(None))):
        return v
    if isinstance(v, float):
        return v
    if isinstance(v, (bytes, bytearray)):
        return list(v)
    if isinstance(v, (list, tuple)):
        return [_jsonable(x) for x in v]
    if isinstance(v, dict):
        return {str(k): _jsonable(x) for k, x in v.items()}
    return repr(v)


def explore(harness, argtypes, timeout=60.0, per_path_timeout=20.0, max_witnesses=3, max_iter=10 ** 7, before_path=None):
    """Explore every path of harness(**symbolic args).  Verdict: res.holds iff the tree was exhausted with every path confirmed."""
    res = Result()
    t0 = time.time()
    start = process_time()
    q0, s0 = SOLVER["queries"], SOLVER["seconds"]
    root = RootNode()
    cov = _Coverage()
    for _ in range(max_iter):
        now = process_time()
        if now - start > timeout:
            res.timed_out = True
            break
        if before_path is not None:
            before_path()
        # floors: z3's per-query timeout is wall-clock, so on a loaded machine a 10 s query limit turns ordinary queries into UNKNOWN
        # (INCONCLUSIVE lemmas); the lemma's CPU budget (`timeout`) still bounds the whole exploration
        pp = max(per_path_timeout, 120.0)
        space = StateSpace(execution_deadline=now + pp, model_check_timeout=pp / 2, search_root=root)
        res.paths += 1
        with condition_parser([AnalysisKind.asserts]), Patched(), COMPOSITE_TRACER, NoTracing(), StateSpaceContext(space):
            COMPOSITE_TRACER.push_module(cov)
            status = None
            try:
                args = {n: make_symbolic(t, n) for n, t in argtypes.items()}
                ok = None
                with ExceptionFilter() as ef, ResumedTracing():
                    ok = bool(harness(**args))
                if ef.ignore:
                    res.ignored += 1
                elif ef.user_exc is not None:
                    e, tb = ef.user_exc
                    with ResumedTracing():
                        space.detach_path(e)
                        cargs = {k: deep_realize(v) for k, v in args.items()}
                    res.cex = {k: _jsonable(v) for k, v in cargs.items()}
                    res.exc = (type(e).__name__, str(e)[:300], "".join(tb.format()[-4:])[-1500:])
                    status = VerificationStatus.REFUTED
                elif ok:
                    status = VerificationStatus.CONFIRMED
                    res.confirmed += 1
                    if len(res.witnesses) < max_witnesses:
                        try:
                            with ResumedTracing():
                                space.detach_path()
                                w = {k: deep_realize(v) for k, v in args.items()}
                            res.witnesses.append({k: _jsonable(v) for k, v in w.items()})
                        except BaseException:  # witness extraction is best effort
                            pass
                else:
                    with ResumedTracing():
                        space.detach_path()
                        cargs = {k: deep_realize(v) for k, v in args.items()}
                    res.cex = {k: _jsonable(v) for k, v in cargs.items()}
                    status = VerificationStatus.REFUTED
            except IgnoreAttempt:
                res.ignored += 1
            except UnexploredPath as e:
                status = VerificationStatus.UNKNOWN
                if len(res.unknown_reasons) < 5:
                    res.unknown_reasons.append(type(e).__name__ + ": " + str(e)[:200])
            except NotDeterministic as e:
                res.nondeterministic += 1
                res.unknown_reasons.append("NotDeterministic: " + str(e)[:300])
                break
            except CrossHairInternal as e:
                status = VerificationStatus.UNKNOWN
                if len(res.unknown_reasons) < 5:
                    res.unknown_reasons.append("CrossHairInternal: " + str(e)[:200] + " @ " + traceback.format_exc()[-400:])
            finally:
                try:
                    COMPOSITE_TRACER.pop_config(cov)
                except Exception:
                    pass
            if status == VerificationStatus.UNKNOWN:
                res.unknown += 1
            _top, exhausted = space.bubble_status(CallAnalysis(status))
        if status == VerificationStatus.REFUTED:
            res.refuted += 1
            break
        if exhausted:
            res.exhausted = True
            break
    res.wall = time.time() - t0
    res.solver_queries = SOLVER["queries"] - q0
    res.solver_s = SOLVER["seconds"] - s0
    res.functions = cov.names()
    return res
