"""Environment bootstrap: sys.path for /repo, ICU loader path (re-exec) or the stand-in icu package."""
import os
import sys

REPO = os.environ.get("VERIF_REPO", "/repo")
VERIF = os.path.dirname(os.path.dirname(os.path.abspath(__file__)))
ICU_DIRS = ["/root/miniconda/lib"]
ICU_MODE = "unset"


def icu_env(env=None):
    """Return an environment dict in which PyICU's shared libraries are loadable (if they exist)."""
    env = dict(os.environ if env is None else env)
    for d in ICU_DIRS:
        if os.path.exists(os.path.join(d, "libicui18n.so.73")):
            cur = env.get("LD_LIBRARY_PATH", "")
            if d not in cur.split(":"):
                env["LD_LIBRARY_PATH"] = d + (":" + cur if cur else "")
            break
    return env


def bootstrap():
    """Make `import pyoda_time` work from REPO. Called at the start of every worker process."""
    global ICU_MODE
    if REPO not in sys.path:
        sys.path.insert(0, REPO)
    if VERIF not in sys.path:
        sys.path.insert(0, VERIF)
    try:
        import icu  # noqa: F401
        ICU_MODE = "real-icu"
    except Exception:
        shim = os.path.join(VERIF, "symx", "shim")
        for k in [k for k in sys.modules if k == "icu" or k.startswith("icu.")]:
            del sys.modules[k]
        sys.path.insert(0, shim)
        import icu  # noqa: F401
        ICU_MODE = "shim-icu (invariant culture only)"
    return ICU_MODE
