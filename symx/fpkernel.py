"""fpkernel: IEEE-754 encodings of small float kernels, translated from the repository's source on every run.

CrossHair models Python floats as reals, so a kernel such as `int(n * math.pow(10.0, k))` cannot be decided by path exploration.
This module finds the statement in the current source (ast), translates the expression to z3's floating-point theory (Float64,
round-to-nearest-even for arithmetic and int->float conversion, round-toward-zero for int()), and the caller asserts the negated
property over a symbolic integer operand.  UNSAT = holds for every operand in the stated range; SAT = concrete operand, replayed on
the real code by the lemma's harness."""
import ast
import math
import time

import z3

F64 = z3.Float64()
RNE = z3.RNE()
RTZ = z3.RTZ()


def find_int_call(path, func_name, target):
    """the AST of X in the (unique) statement `target = int(X)` inside function `func_name` of file `path`"""
    tree = ast.parse(open(path).read())
    hits = []
    for fn in ast.walk(tree):
        if isinstance(fn, (ast.FunctionDef, ast.AsyncFunctionDef)) and fn.name == func_name:
            for st in ast.walk(fn):
                if (isinstance(st, ast.Assign) and len(st.targets) == 1 and isinstance(st.targets[0], ast.Name) and st.targets[0].id == target
                        and isinstance(st.value, ast.Call) and isinstance(st.value.func, ast.Name) and st.value.func.id == "int"
                        and len(st.value.args) == 1):
                    hits.append(st.value.args[0])
    if len(hits) != 1:
        raise LookupError(f"{path}:{func_name}: expected exactly one `{target} = int(...)`, found {len(hits)}")
    return hits[0]


class Untranslatable(Exception):
    pass


class IntSym:
    """a symbolic Python int held as a signed 64-bit vector (the caller bounds it well inside that width)"""

    def __init__(self, bv):
        self.bv = bv


def _to_fp(v):
    if isinstance(v, IntSym):
        return z3.fpSignedToFP(RNE, v.bv, F64)               # int -> float conversion is correctly rounded (exact below 2**53)
    if isinstance(v, bool):
        raise Untranslatable("bool operand")
    if isinstance(v, int):
        return z3.FPVal(float(v), F64)
    if isinstance(v, float):
        return z3.FPVal(v, F64)
    return v


def translate(node, env):
    """-> Python number (fully concrete sub-expression, evaluated by CPython itself), IntSym, or a z3 Float64 term"""
    if isinstance(node, ast.Constant) and isinstance(node.value, (int, float)):
        return node.value
    if isinstance(node, ast.Name):
        if node.id not in env:
            raise Untranslatable(f"free name {node.id}")
        return env[node.id]
    if isinstance(node, ast.UnaryOp) and isinstance(node.op, ast.USub):
        v = translate(node.operand, env)
        if isinstance(v, (int, float)):
            return -v
        if isinstance(v, IntSym):
            return IntSym(-v.bv)
        return z3.fpNeg(v)
    if isinstance(node, ast.Call):
        f = node.func
        if isinstance(f, ast.Attribute) and isinstance(f.value, ast.Name) and f.value.id == "math" and f.attr == "pow" and len(node.args) == 2:
            a, b = (translate(x, env) for x in node.args)
            if isinstance(a, (int, float)) and isinstance(b, (int, float)):
                return math.pow(a, b)                          # concrete: CPython's own libm result
            raise Untranslatable("math.pow over a symbolic operand")
        if isinstance(f, ast.Name) and f.id == "float" and len(node.args) == 1:
            v = translate(node.args[0], env)
            return float(v) if isinstance(v, (int, float)) else _to_fp(v)
        raise Untranslatable(f"call {ast.dump(f)}")
    if isinstance(node, ast.BinOp):
        a, b = translate(node.left, env), translate(node.right, env)
        conc = isinstance(a, (int, float)) and isinstance(b, (int, float))
        op = type(node.op)
        if conc:
            return {ast.Mult: lambda: a * b, ast.Div: lambda: a / b, ast.Add: lambda: a + b, ast.Sub: lambda: a - b,
                    ast.Pow: lambda: a ** b, ast.FloorDiv: lambda: a // b}[op]()
        both_int = all(isinstance(x, (int, IntSym)) and not isinstance(x, bool) for x in (a, b))
        if both_int and op in (ast.Mult, ast.Add, ast.Sub):
            abv = a.bv if isinstance(a, IntSym) else z3.BitVecVal(a, 64)
            bbv = b.bv if isinstance(b, IntSym) else z3.BitVecVal(b, 64)
            return IntSym({ast.Mult: abv * bbv, ast.Add: abv + bbv, ast.Sub: abv - bbv}[op])
        if both_int and op is not ast.Div:
            raise Untranslatable(f"integer operator {op.__name__} over a symbolic operand")
        fa, fb = _to_fp(a), _to_fp(b)
        if op is ast.Mult:
            return z3.fpMul(RNE, fa, fb)
        if op is ast.Div:
            return z3.fpDiv(RNE, fa, fb)
        if op is ast.Add:
            return z3.fpAdd(RNE, fa, fb)
        if op is ast.Sub:
            return z3.fpSub(RNE, fa, fb)
        raise Untranslatable(f"operator {op.__name__}")
    raise Untranslatable(ast.dump(node)[:80])


def py_int(term):
    """int(x) for a float x known to be finite and inside the int64 range: truncation toward zero"""
    if isinstance(term, IntSym):
        return term.bv
    if isinstance(term, (int, float)):
        return z3.BitVecVal(int(term), 64)
    return z3.fpToSBV(RTZ, term, z3.BitVecSort(64))


def evaluate(node, env_concrete):
    """the same expression evaluated by CPython on concrete operands (translator validation)"""
    code = compile(ast.Expression(body=node), "<kernel>", "eval")
    return eval(code, {"math": math, "float": float}, dict(env_concrete))


def solve(constraints, timeout_s):
    s = z3.Solver()
    s.set("timeout", int(timeout_s * 1000))
    for c in constraints:
        s.add(c)
    t0 = time.time()
    r = str(s.check())
    dt = time.time() - t0
    return r, (s.model() if r == "sat" else None), dt
