"""Lemma registry and the per-lemma worker.

A property module (props/cNN.py) declares lemmas with @lemma.  Each lemma *instance* (lemma x parameter) is decided in its
own process (`python -m symx.worker run ...`), because stubs and plug-ins are process-global.  The worker
  1. re-checks the known findings listed for this instance concretely and excludes their regions from the search,
  2. explores the harness symbolically (symx.driver.explore),
  3. replays a counterexample concretely (plain CPython, patches inactive) before calling it a violation,
  4. replays the witnesses of confirmed paths concretely (conformance of plug-in models with the real code),
and prints one line `RESULT <json>`.
"""
from __future__ import annotations

import hashlib
import importlib
import json
import os
import sys
import time
import traceback

VERIF = os.path.dirname(os.path.dirname(os.path.abspath(__file__)))
REGISTRY: dict[str, "Lemma"] = {}


class Lemma:
    def __init__(self, name, fn, args, params, budget, per_path, tiers, bounds, premise, doc, thorough_budget, smt=None):
        self.name = name
        self.fn = fn
        self.args = args
        self.params = params
        self.budget = budget
        self.thorough_budget = thorough_budget or budget
        self.per_path = per_path
        self.tiers = tiers
        self.bounds = bounds
        self.premise = premise
        self.doc = doc
        self.smt = smt

    def instances(self, tier, seed):
        if self.params is None:
            return [None]
        ps = self.params(tier, seed) if callable(self.params) else list(self.params)
        return ps


def lemma(args=None, *, name=None, params=None, budget=60, thorough_budget=None, per_path=20, tiers=("quick", "thorough"),
          bounds="", premise=False, smt=None):
    """Declare a lemma.  Without `params` the decorated function is the harness; with `params` it is a factory P -> harness
    (or P -> (harness, before_path)).  `premise=True`: a concrete, labelled data premise (function returns (ok, detail)).
    `smt=f`: the instance is decided by f(P, budget) -> dict(queries, unsat, unknown, cex, witnesses, functions, solver_s, detail), a
    direct SMT encoding regenerated from the source (symx.fpkernel); the decorated function is then only the CONCRETE harness over the
    real code, used to replay the solver's counterexample and the witnesses."""

    def deco(fn):
        nm = name or fn.__name__
        REGISTRY[nm] = Lemma(nm, fn, args or {}, params, budget, per_path, tiers, bounds, premise, (fn.__doc__ or "").strip(),
                             thorough_budget, smt)
        return fn

    return deco


def instance_key(name, P):
    return name if P is None else f"{name}[{P if isinstance(P, (str, int)) else json.dumps(P, sort_keys=True)}]"


def load_known(prop):
    p = os.path.join(VERIF, "known_findings.json")
    if not os.path.exists(p):
        return []
    data = json.load(open(p))
    return [e for e in data.get("findings", []) if e.get("property") == prop]


def _concrete_fails(harness, args):
    """Run the harness on concrete args in plain CPython.  Returns (fails, detail)."""
    from crosshair.util import IgnoreAttempt
    try:
        ok = harness(**args)
    except IgnoreAttempt:
        return None, "assumption rejects these arguments"
    except Exception as e:  # an escaping exception is a failure of the property
        return True, f"{type(e).__name__}: {str(e)[:200]}"
    return (not ok), ("harness returned False" if not ok else "harness returned True")


def _build(lem, P):
    if lem.params is None:
        h = lem.fn
        before = None
    else:
        h = lem.fn(P)
        before = None
        if isinstance(h, tuple):
            h, before = h
    return h, before


def run_instance(prop, name, P, tier, seed, budget):
    from . import env
    icu_mode = env.bootstrap()
    t0 = time.time()
    mod = importlib.import_module(f"props.{prop.lower()}")
    lem = REGISTRY[name]
    key = instance_key(name, P)
    out = {"property": prop, "lemma": key, "bounds": lem.bounds, "icu": icu_mode, "premise": lem.premise, "doc": lem.doc,
           "known_findings": [], "verdict": None}
    if lem.premise:
        known_ids = []
        try:
            res = lem.fn(P) if lem.params is not None else lem.fn()
            ok, detail = res[0], res[1]
            known_ids = list(res[2]) if len(res) > 2 else []
        except Exception as e:
            ok, detail = False, f"{type(e).__name__}: {e}\n{traceback.format_exc()[-800:]}"
        # a premise may report that it observed listed known findings (by id); an id that is not listed makes it fail
        listed = {e.get("id"): e for e in load_known(prop) if e.get("status") == "known"}
        for kid in known_ids:
            if kid in listed:
                out["known_findings"].append({"id": kid, "what": listed[kid]["what"], "still_fails": True})
            else:
                ok, detail = False, detail + f" [unlisted finding {kid}]"
        out.update(verdict="PREMISE-OK" if ok else "PREMISE-FAILED", detail=detail, wall=time.time() - t0)
        return out
    harness, before = _build(lem, P)
    # --- known findings: confirm concretely, then exclude their regions
    regions = []
    for e in load_known(prop):
        if e.get("status") != "known":
            continue
        if not (e.get("lemma") == key or ("lemma_prefix" in e and key.startswith(e["lemma_prefix"]))):
            continue
        ws = e.get("witnesses") or [e["witness"]]
        outcomes = [_concrete_fails(harness, w) for w in ws]
        failing = [w for w, (f, _d) in zip(ws, outcomes) if f]
        applicable = [o for o in outcomes if o[0] is not None]   # witnesses this instance's assumptions admit
        rec = {"id": e.get("id"), "what": e["what"], "still_fails": bool(failing), "failing_witnesses": failing[:3],
               "applicable_witnesses": len(applicable)}
        if applicable:
            out["known_findings"].append(rec)
        if failing:
            regions.append(e["region"])
    if regions:
        base = harness
        codes = [compile(r, "<region>", "eval") for r in regions]
        from .driver import assume

        def harness(**kw):  # noqa: F811
            # the listed regions are consulted only for FAILING paths (so they add no forks to passing ones): a failure inside a
            # listed region is discarded (it is the known finding), any other failure is reported
            def in_region():
                env_ = {"__builtins__": {"abs": abs, "len": len, "min": min, "max": max, "chr": chr, "ord": ord}}
                return any(eval(c, env_, dict(kw)) for c in codes)
            try:
                ok = base(**kw)
            except Exception:
                if in_region():
                    assume(False)
                raise
            if not ok and in_region():
                assume(False)
            return ok

    from . import driver, stubs
    if lem.smt is not None:
        r = lem.smt(P, budget)
        out.update(paths=r["queries"], confirmed=r["unsat"], ignored=0, unknown=r["unknown"], refuted=bool(r.get("cex")), nondeterministic=0,
                   exhausted=(r["unknown"] == 0 and not r.get("cex")), timed_out=r["unknown"] > 0, cex=r.get("cex"), exc=None,
                   witnesses=r.get("witnesses", []), functions=r.get("functions", []), solver_queries=r["queries"], solver_s=r["solver_s"],
                   unknown_reasons=r.get("unknown_reasons", []), stubs=list(stubs.STUBS_IN_FORCE) + ["encoding:" + r.get("detail", "")],
                   plugin_stats={}, excluded_regions=regions)
        out["verdict"] = "CEX-UNREPLAYED" if r.get("cex") else ("HOLDS" if out["exhausted"] else "INCONCLUSIVE")
        out["wall"] = time.time() - t0
        return out
    res = driver.explore(harness, lem.args, timeout=budget, per_path_timeout=lem.per_path, before_path=before)
    d = res.as_dict()
    out.update({k: d[k] for k in ("paths", "confirmed", "ignored", "unknown", "refuted", "nondeterministic", "exhausted",
                                  "timed_out", "cex", "exc", "witnesses", "functions", "solver_queries", "solver_s",
                                  "unknown_reasons")})
    out["stubs"] = list(stubs.STUBS_IN_FORCE)
    out["plugin_stats"] = {"bitops": dict(stubs.bitops.STATS), "arith": dict(stubs.arith.STATS), "fmtint": dict(stubs.fmtint.STATS), "fpexact": dict(stubs.fpexact.STATS),
                           "seqwindow": dict(stubs.seqwindow.STATS), "strcmp": dict(stubs.strcmp.STATS)}
    out["excluded_regions"] = regions
    # --- verdict
    if res.refuted:
        out["verdict"] = "CEX-UNREPLAYED"
    elif res.holds:
        out["verdict"] = "HOLDS"
    else:
        out["verdict"] = "INCONCLUSIVE"
    out["wall"] = time.time() - t0
    return out


def replay_instance(prop, name, P, args_list):
    """Concrete re-execution in a fresh plain-CPython process (no tracing => register_patch stubs and models inactive)."""
    from . import env
    env.bootstrap()
    importlib.import_module(f"props.{prop.lower()}")
    lem = REGISTRY[name]
    harness, before = _build(lem, P)
    outs = []
    for args in args_list:
        if before is not None:
            before()
        fails, detail = _concrete_fails(harness, args)
        outs.append({"fails": fails, "detail": detail})
    return outs


def main(argv):
    mode = argv[0]
    if mode == "run":
        prop, name, pjson, tier, seed, budget = argv[1], argv[2], argv[3], argv[4], int(argv[5]), float(argv[6])
        P = json.loads(pjson)
        try:
            out = run_instance(prop, name, P, tier, seed, budget)
        except BaseException as e:
            out = {"property": prop, "lemma": instance_key(name, P), "verdict": "HARNESS-ERROR",
                   "detail": f"{type(e).__name__}: {e}\n{traceback.format_exc()[-2000:]}"}
        print("RESULT " + json.dumps(out, default=repr), flush=True)
    elif mode == "replay":
        prop, name, pjson, argsjson = argv[1], argv[2], argv[3], argv[4]
        try:
            outs = replay_instance(prop, name, json.loads(pjson), json.loads(argsjson))
            print("RESULT " + json.dumps(outs, default=repr), flush=True)
        except BaseException as e:
            print("RESULT " + json.dumps({"error": f"{type(e).__name__}: {e}\n{traceback.format_exc()[-2000:]}"}), flush=True)
    elif mode == "list":
        from . import env
        env.bootstrap()
        prop, tier, seed = argv[1], argv[2], int(argv[3])
        importlib.import_module(f"props.{prop.lower()}")
        jobs = []
        for lem in REGISTRY.values():
            if tier not in lem.tiers:
                continue
            for P in lem.instances(tier, seed):
                jobs.append({"name": lem.name, "P": P, "budget": lem.budget if tier == "quick" else lem.thorough_budget,
                             "premise": lem.premise, "bounds": lem.bounds})
        print("RESULT " + json.dumps(jobs), flush=True)


def replay_hash(prop, key, args):
    return hashlib.sha1(json.dumps([prop, key, args], sort_keys=True, default=repr).encode()).hexdigest()[:10]
