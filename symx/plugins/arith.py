"""Plug-in: fork-free floor division / modulo by a positive concrete divisor, and an exact model of `_towards_zero_division`.

CrossHair forks on the sign of the dividend for every `//` and `%`; z3's Int `div`/`mod` with a positive constant divisor
are exactly Python's floor division / modulo, so no fork is needed.  `_towards_zero_division` (Decimal-based in the
repository, a C boundary) is modelled as exact truncation; the model is only valid while the 28-digit Decimal context cannot
round across an integer, which holds for |x| < 10**26 (digits(quotient) + digits(divisor) <= 27): that obligation is
solver-checked at every call and a path on which it can fail is reported UNKNOWN, never confirmed.
"""
import z3
from crosshair.libimpl.builtinslib import SymbolicInt
from crosshair.statespace import context_statespace
from crosshair.tracers import NoTracing
from crosshair.util import CrosshairUnsupported

STATS = {"floordiv": 0, "mod": 0, "tzd": 0, "tzd_obligations": 0}
TZD_LIMIT = 10 ** 26
_orig_floordiv = SymbolicInt.__floordiv__
_orig_mod = SymbolicInt.__mod__


def _conc_pos(o):
    return type(o) is int and o > 0


def _floordiv(self, other):
    with NoTracing():
        if _conc_pos(other):
            STATS["floordiv"] += 1
            return SymbolicInt(self.var / z3.IntVal(other))
    return _orig_floordiv(self, other)


def _mod(self, other):
    with NoTracing():
        if _conc_pos(other):
            STATS["mod"] += 1
            return SymbolicInt(self.var % z3.IntVal(other))
    return _orig_mod(self, other)


def exact_trunc_div(x, y):
    q = abs(x) // abs(y)
    return q if (x >= 0) == (y >= 0) else -q


_REAL = {}


def tzd(x, y):
    """Model of pyoda_time.utility._csharp_compatibility._towards_zero_division for ints."""
    with NoTracing():
        if isinstance(x, SymbolicInt) and _conc_pos(y):
            STATS["tzd"] += 1
            space = context_statespace()
            v, d = x.var, z3.IntVal(y)
            STATS["tzd_obligations"] += 1
            if space.is_possible(z3.Or(v >= TZD_LIMIT, v <= -TZD_LIMIT)):
                raise CrosshairUnsupported("tzd model obligation |x| < 10**26 not provable on this path")
            return SymbolicInt(z3.If(v >= 0, v / d, -((-v) / d)))
        if type(x) is float or type(y) is float:
            # a concrete double reached the division (only possible after floatpin pinned an int that was routed through floating
            # point): run the repository's own Decimal-based implementation, the integer model does not describe it
            real = _REAL.get("tzd")
            if real is not None:
                return real(x, y)
            raise CrosshairUnsupported("tzd on a float: original implementation not captured")
    return exact_trunc_div(x, y)


def install():
    SymbolicInt.__floordiv__ = _floordiv
    SymbolicInt.__mod__ = _mod
