"""Plugin: exact linear-integer encodings for | and & on CrossHair SymbolicInt (no realisation)."""
import z3
from crosshair.libimpl.builtinslib import SymbolicInt
from crosshair.statespace import context_statespace
from crosshair.tracers import NoTracing, is_tracing
from crosshair.core import realize

STATS = {'or_add': 0, 'or_bv': 0, 'and_field': 0, 'and_bv': 0, 'side_queries': 0}
BVW = 72

def _smt(x):
    if isinstance(x, SymbolicInt): return x.var
    if isinstance(x, bool): return z3.IntVal(int(x))
    if isinstance(x, int): return z3.IntVal(x)
    return None

def _pow2_consts(e, out, depth=0):
    if depth > 12: return
    if z3.is_int_value(e):
        v = abs(e.as_long())
        if v > 1 and v & (v - 1) == 0: out.add(v.bit_length() - 1)
        return
    for c in e.children(): _pow2_consts(c, out, depth + 1)

def _tz(e, depth=0):
    """Syntactic lower bound on the number of trailing zero bits of integer term e (exact for constants)."""
    if depth > 20: return 0
    if z3.is_int_value(e):
        v = e.as_long()
        return 10**6 if v == 0 else (v & -v).bit_length() - 1
    k = e.decl().kind()
    ch = e.children()
    if k == z3.Z3_OP_MUL: return min(10**6, sum(_tz(c, depth + 1) for c in ch))
    if k in (z3.Z3_OP_ADD, z3.Z3_OP_SUB): return min(_tz(c, depth + 1) for c in ch)
    if k == z3.Z3_OP_UMINUS: return _tz(ch[0], depth + 1)
    if k == z3.Z3_OP_ITE: return min(_tz(ch[1], depth + 1), _tz(ch[2], depth + 1))
    return 0

def _valid(space, cond):
    STATS['side_queries'] += 1
    return not space.is_possible(z3.Not(cond))

def _bv(op, a, b):
    A = z3.Int2BV(a, BVW); B = z3.Int2BV(b, BVW)
    R = (A | B) if op == 'or' else (A & B) if op == 'and' else (A ^ B)
    return z3.BV2Int(R, is_signed=True)

def sym_or(x, y):
    with NoTracing():
        space = context_statespace()
        a, b = _smt(x), _smt(y)
        if a is None or b is None: return NotImplemented
        ks = set(); _pow2_consts(a, ks); _pow2_consts(b, ks)
        for v in (x, y):
            if isinstance(v, int) and not isinstance(v, SymbolicInt) and v >= 0: ks.add(v.bit_length())
        for (p, q) in ((a, b), (b, a)):
            k = _tz(p)
            if 0 < k < 10**6 and _valid(space, z3.And(q >= 0, q < 2 ** k)):
                STATS['or_add'] += 1
                return SymbolicInt(a + b)
        lim = 2 ** (BVW - 1)
        if not _valid(space, z3.And(a >= -lim, a < lim, b >= -lim, b < lim)):
            return realize(x) | realize(y)
        STATS['or_bv'] += 1
        return SymbolicInt(_bv('or', a, b))

def sym_and(x, y):
    with NoTracing():
        space = context_statespace()
        if isinstance(y, SymbolicInt) and not isinstance(x, SymbolicInt): x, y = y, x
        a, b = _smt(x), _smt(y)
        if a is None or b is None: return NotImplemented
        if not isinstance(y, SymbolicInt):
            mask = int(y)
            if mask == 0: return 0
            if mask > 0:
                s = (mask & -mask).bit_length() - 1
                w = (mask >> s)
                if w & (w + 1) == 0:   # contiguous run of ones
                    STATS['and_field'] += 1
                    width = w.bit_length()
                    return SymbolicInt(((a / (2 ** s)) % (2 ** width)) * (2 ** s))   # z3 Int '/' is floor for positive divisor
        lim = 2 ** (BVW - 1)
        if not _valid(space, z3.And(a >= -lim, a < lim, b >= -lim, b < lim)):
            return realize(x) & realize(y)
        STATS['and_bv'] += 1
        return SymbolicInt(_bv('and', a, b))

def sym_xor(x, y):
    with NoTracing():
        space = context_statespace()
        a, b = _smt(x), _smt(y)
        if a is None or b is None: return NotImplemented
        for (p, q) in ((a, b), (b, a)):
            if _valid(space, z3.Or(p == 0, p == -1)):
                STATS['xor_sel'] = STATS.get('xor_sel', 0) + 1
                return SymbolicInt(z3.If(p == 0, q, -q - 1))
        return realize(x) ^ realize(y)

def install():
    SymbolicInt.__xor__ = lambda s, o: sym_xor(s, o)
    SymbolicInt.__rxor__ = lambda s, o: sym_xor(o, s)
    SymbolicInt.__or__ = lambda s, o: sym_or(s, o)
    SymbolicInt.__ror__ = lambda s, o: sym_or(o, s)
    SymbolicInt.__and__ = lambda s, o: sym_and(s, o)
    SymbolicInt.__rand__ = lambda s, o: sym_and(o, s)

import os
if os.environ.get('BITOPS_DEBUG'):
    _orig_or = sym_or
    def sym_or(x, y):
        before = STATS['or_bv']
        r = _orig_or(x, y)
        if STATS['or_bv'] != before:
            with NoTracing():
                print('BVFALLBACK', _smt(x), '|', _smt(y), flush=True)
        return r
