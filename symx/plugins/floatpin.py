"""Plug-in: a symbolic int that meets floating point is pinned, never modelled as a real.

CrossHair's default model of `float(<symbolic int>)` and of `<symbolic int> <op> <float>` is a mathematical real: a change that
routes an integer quantity through a double (and so loses the low bits beyond 2**53) is then "proved" harmless.  With this plug-in
such a conversion is decided the other way round: the solver is asked for a value of the int on the current path that is as
hostile to a double as the path allows (odd, as large in magnitude as possible), the int is pinned to that single value in one
branch - the computation then continues in real IEEE arithmetic, concretely - and the complementary branch is UNKNOWN.  A wrong
result shows up as an ordinary counterexample (replayed like any other); without one the lemma is INCONCLUSIVE, never HOLDS.
Code that stays in integers never reaches this plug-in.  (fpexact's exactly-modelled cases - int(a / c), a * 10.0**k below
2**53 - are tried first and keep their exact encoding.)"""
import z3
from crosshair.libimpl.builtinslib import SymbolicInt
from crosshair.statespace import context_statespace
from crosshair.tracers import NoTracing
from crosshair.util import CrosshairUnsupported

STATS = {"pinned": 0}


def _pin(sym):
    import os
    if os.environ.get("VERIF_FLOATPIN_TRACE"):
        import traceback
        with open(os.environ["VERIF_FLOATPIN_TRACE"], "a") as f:
            f.write("".join(traceback.format_stack(limit=12)) + "\n=====\n")
    space = context_statespace()
    a = sym.var
    cands = []
    for k in (62, 53, 44, 34, 24, 16, 8, 0):
        cands.append(z3.And(a >= 2 ** k, a % 2 == 1))
        cands.append(z3.And(a <= -(2 ** k), (-a) % 2 == 1))
    cands.append(z3.BoolVal(True))
    for cond in cands:
        space.solver.push()
        try:
            space.solver.add(cond)
            if space.solver.check() != z3.sat:
                continue
            val = space.solver.model().eval(a, model_completion=True).as_long()
        finally:
            space.solver.pop()
        STATS["pinned"] += 1
        if space.smt_fork(a == z3.IntVal(val), probability_true=1.0):
            return val
        raise CrosshairUnsupported("symbolic int meets floating point: only the pinned witness branch is explored")
    raise CrosshairUnsupported("symbolic int meets floating point: no witness")


def _wrap(name, reflected):
    orig = getattr(SymbolicInt, name)
    plain = getattr(int, name)

    def method(self, other):
        with NoTracing():
            is_float = type(other) is float
        if not is_float:
            return orig(self, other)
        try:
            r = orig(self, other)                     # fpexact's exact cases (or an unsupported-operation abort)
            with NoTracing():
                exact = isinstance(r, SymbolicInt)
            if exact:
                return r
        except CrosshairUnsupported:
            pass
        with NoTracing():
            val = _pin(self)
            r = plain(val, other)
            if r is NotImplemented:                    # int.__add__(int, float) -> NotImplemented: use float's side
                fname = name.replace("__r", "__", 1) if reflected else "__r" + name[2:]
                r = getattr(float, fname)(other, val)
            return r
    method.__name__ = name
    return method


_installed = []


def install():
    if _installed:
        return
    _installed.append(1)

    def _float(self):
        with NoTracing():
            return float(_pin(self))
    SymbolicInt.__float__ = _float
    for name in ("__add__", "__sub__", "__mul__", "__truediv__", "__floordiv__", "__mod__", "__pow__"):
        setattr(SymbolicInt, name, _wrap(name, False))
        rname = "__r" + name[2:]
        setattr(SymbolicInt, rname, _wrap(rname, True))
