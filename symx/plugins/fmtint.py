"""Plugin: symbolic model of int.__format__ for zero-padded decimal specs -> LazyIntSymbolicStr (no realisation)."""
import re
from crosshair.libimpl.builtinslib import SymbolicInt, LazyIntSymbolicStr
from crosshair.core import realize
from crosshair.tracers import NoTracing, ResumedTracing
STATS = {'sym': 0, 'realized': 0}
_SPEC = re.compile(r'^(?:(0>)(\d+)|(0?)(\d*)d?)$')

def _digits(a, width):
    # a >= 0 symbolic; returns list of codepoints, forks on number of digits
    n = 1
    while n < 40 and not (a < 10 ** n):
        n += 1
    ds = [48 + (a // 10 ** i) % 10 for i in range(n - 1, -1, -1)]
    _assert_recomposition(a, ds, n)
    return [48] * max(0, width - n) + ds

def _assert_recomposition(a, ds, n):
    """Hand the solver the arithmetic identity sum(digit_i * 10**i) == a for the digits just defined (true for every 0 <= a < 10**n
    by the definition digit_i = (a div 10**i) mod 10; a fact about integers, not about the code under test).  Without it z3 times out
    re-deriving the identity when a parser re-assembles a 6-9 digit field."""
    import z3
    from crosshair.statespace import context_statespace
    with NoTracing():
        if not isinstance(a, SymbolicInt) or n < 4:
            return
        terms = []
        for k, d in enumerate(ds):                     # ds[0] is the most significant digit
            if not isinstance(d, SymbolicInt):
                return
            terms.append((d.var - 48) * (10 ** (n - 1 - k)))
        context_statespace().add(z3.Sum(terms) == a.var)
        STATS["recomposition_facts"] = STATS.get("recomposition_facts", 0) + 1


def sym_format(self, fmt):
    fmt = realize(fmt)
    m = _SPEC.match(fmt)
    if m is None:
        STATS['realized'] += 1
        return realize(self).__format__(fmt)
    STATS['sym'] += 1
    if m.group(1):   # '0>N' : fill/align, sign is part of the padded text
        width = int(m.group(2))
        if self < 0:
            body = [45] + _digits(-self, 0)
            return LazyIntSymbolicStr([48] * max(0, width - len(body)) + body)
        return LazyIntSymbolicStr(_digits(self, width))
    zero, w = m.group(3), m.group(4)
    width = int(w) if w else 0
    if not zero and width:
        STATS['realized'] += 1
        return realize(self).__format__(fmt)   # space padding: not needed
    if self < 0:
        return LazyIntSymbolicStr([45] + _digits(-self, max(0, width - 1)))
    return LazyIntSymbolicStr(_digits(self, width))

def install():
    import crosshair.core as core
    from crosshair.libimpl import builtinslib as bl
    orig = core._PATCH_REGISTRATIONS[format]
    def _format(obj, format_spec=""):
        with NoTracing():
            is_sym = isinstance(obj, SymbolicInt)
            user_fmt = None
            exc_text = None
            if isinstance(obj, BaseException) and not format_spec and type(obj).__str__ in (BaseException.__str__, Exception.__str__):
                # f"{e}": the text of a one-argument exception is that argument (possibly a symbolic string): hand it over unrealised
                if len(obj.args) == 1 and isinstance(obj.args[0], (str, bl.AnySymbolicStr)):
                    exc_text = obj.args[0]
                elif len(obj.args) == 0:
                    exc_text = ""
            if exc_text is None and isinstance(obj, BaseException) and not format_spec and (hasattr(type(obj), "__ch_deep_realize__") or any(
                    not isinstance(a, (int, float, str, bytes, bool, type(None))) for a in obj.args)):
                exc_text = "<" + type(obj).__name__ + ">"   # several / non-text arguments holding symbolic values (e.g. UnicodeDecodeError)
            if not is_sym and not isinstance(obj, (int, float, str, bytes, bool, type(None))):
                f = getattr(type(obj), "__format__", None)
                if f is not None and f is not object.__format__ and getattr(f, "__code__", None) is not None:
                    user_fmt = f      # a Python-level __format__ (repository class or harness stub): no realisation of the object
        if is_sym:
            return sym_format(obj, format_spec)
        if exc_text is not None:
            return exc_text
        if user_fmt is not None:
            return user_fmt(obj, format_spec)
        return orig(obj, format_spec)
    core._PATCH_REGISTRATIONS[format] = _format
    from crosshair.tracers import COMPOSITE_TRACER
    COMPOSITE_TRACER.patching_module.nextfn[(orig.__code__, format)] = format
    SymbolicInt.__format__ = sym_format
    SymbolicInt.__str__ = lambda self: sym_format(self, '')
