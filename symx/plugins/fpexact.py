"""Plug-in: `int(<symbolic int> / <concrete int> [+- int])` without floating point.

`a / c` on a symbolic int with a concrete positive int divisor yields an ExactRatio; int()/math.trunc()/floor() of it are the
exact truncated / floored quotients.  This models IEEE double division exactly only while the operands stay below 2**53 and the
quotient cannot round across an integer: the obligation |a| < 2**31 (far inside that range: a double then represents a/c with
an error below 2**-21 * |a/c| < 1/c for every c < 2**20) is solver-checked at each use; otherwise the path is UNKNOWN.
Any other use of the ratio (comparison, multiplication, float formatting) makes the path UNKNOWN."""
import z3
from crosshair.libimpl.builtinslib import SymbolicInt
from crosshair.statespace import context_statespace
from crosshair.tracers import NoTracing
from crosshair.util import CrosshairUnsupported

STATS = {"ratio": 0, "to_int": 0}
LIMIT = 2 ** 31
_orig_truediv = SymbolicInt.__truediv__


class ExactRatio:
    def __init__(self, num, den):
        self.num, self.den = num, den   # num: z3 Int expr, den: positive python int

    def _shift(self, k, sign=1):
        with NoTracing():
            if isinstance(k, SymbolicInt):
                return ExactRatio(self.num + sign * k.var * self.den, self.den)
            if type(k) is int:
                return ExactRatio(self.num + sign * k * self.den, self.den)
        raise CrosshairUnsupported("ExactRatio: unsupported operand")

    def __add__(self, k):
        return self._shift(k)

    __radd__ = __add__

    def __sub__(self, k):
        return self._shift(k, -1)

    def _check(self):
        space = context_statespace()
        if space.is_possible(z3.Or(self.num >= LIMIT * self.den, self.num <= -LIMIT * self.den)):
            raise CrosshairUnsupported("fpexact obligation |a/c| < 2**31 not provable")

    def __int__(self):
        with NoTracing():
            STATS["to_int"] += 1
            self._check()
            n, d = self.num, z3.IntVal(self.den)
            return SymbolicInt(z3.If(n >= 0, n / d, -((-n) / d)))

    __trunc__ = __int__

    def __floor__(self):
        with NoTracing():
            self._check()
            return SymbolicInt(self.num / z3.IntVal(self.den))

    def __getattr__(self, name):
        raise CrosshairUnsupported(f"ExactRatio: unsupported operation {name}")


def _pin_adversarial(self, c):
    """Solver-guided concretisation for a float division that cannot be shown exact: ask the solver for a dividend on this
    path that sits just below a multiple of the divisor and beyond 2**53 (where a double rounds the quotient up to the next
    integer), pin the symbolic dividend to that single value in one branch (the division then runs in real IEEE arithmetic,
    concretely) and leave the complementary branch UNKNOWN.  A wrong result shows up as an ordinary counterexample."""
    space = context_statespace()
    a = self.var
    # beyond 2**55 the spacing of doubles near a/c exceeds 2/c, so (k*c - 1)/c rounds to exactly k
    # (when the path's own constraints exclude remainder c - 1 - e.g. the dividend is a multiple of 10 - the nearest remainders
    # below c are tried, largest dividends first: the closer the remainder and the larger the quotient, the likelier the rounding)
    cands = [z3.And(a >= 2 ** 55, a % c == c - 1), z3.And(a <= -(2 ** 55), (-a) % c == c - 1)]
    for j in (2, 4, 6, 8):
        for lo in (2 ** 61, 2 ** 59, 2 ** 57, 2 ** 55):
            cands.append(z3.And(a >= lo, a % c >= c - 2 ** j))
            cands.append(z3.And(a <= -lo, (-a) % c >= c - 2 ** j))
    cands += [a >= 2 ** 55, a <= -(2 ** 55)]
    for cond in cands:
        space.solver.push()
        try:
            space.solver.add(cond)
            if space.solver.check() != z3.sat:
                continue
            val = space.solver.model().eval(a, model_completion=True).as_long()
        finally:
            space.solver.pop()
        STATS["adversarial"] = STATS.get("adversarial", 0) + 1
        if space.smt_fork(a == z3.IntVal(val), probability_true=1.0):
            return val
        raise CrosshairUnsupported("float division on a symbolic int: only the adversarial witness branch is explored")
    return None


def _truediv(self, other):
    with NoTracing():
        if type(other) is int and 0 < other < 2 ** 20:
            STATS["ratio"] += 1
            return ExactRatio(self.var, other)
        if type(other) is int and other > 0:
            val = _pin_adversarial(self, other)
            if val is not None:
                return val / other
            raise CrosshairUnsupported("float division on a symbolic int outside the exactly-modelled range")
    return _orig_truediv(self, other)


_orig_mul = SymbolicInt.__mul__
_orig_rmul = SymbolicInt.__rmul__


def _mul_float(self, other, orig):
    """symbolic int * (integer-valued float < 2**53, e.g. math.pow(10.0, k)): exact in IEEE double while the product stays below
    2**53 (obligation solver-checked); returned as the exact integer product."""
    with NoTracing():
        if type(other) is float and other.is_integer() and 0 < abs(other) < 2 ** 53:
            k = int(other)
            space = context_statespace()
            prod = self.var * k
            if space.is_possible(z3.Or(prod >= 2 ** 53, prod <= -(2 ** 53))):
                raise CrosshairUnsupported("fpexact obligation |a * f| < 2**53 not provable")
            STATS["mul_float"] = STATS.get("mul_float", 0) + 1
            return SymbolicInt(prod)
    return orig(self, other)


def install():
    import crosshair.core as core
    SymbolicInt.__truediv__ = _truediv
    SymbolicInt.__mul__ = lambda s, o: _mul_float(s, o, _orig_mul)
    SymbolicInt.__rmul__ = lambda s, o: _mul_float(s, o, _orig_rmul)
    orig_int = core._PATCH_REGISTRATIONS[int]

    def _int(val=0, *a, **k):
        if type(val) is ExactRatio:
            return val.__int__()
        return orig_int(val, *a, **k)

    core._PATCH_REGISTRATIONS[int] = _int
    # CrossHair's own _int calls the builtin int() internally; tell the patching layer that a call made from its code
    # object is "one layer down" (otherwise it would be routed back to our wrapper: infinite recursion).
    from crosshair.tracers import COMPOSITE_TRACER
    COMPOSITE_TRACER.patching_module.nextfn[(orig_int.__code__, int)] = int
