"""seqwindow plug-in: a symbolic index into a long concrete list/tuple.

CrossHair encodes `table[i]` (concrete table, symbolic i) as an if-then-else chain over EVERY element, which for the calendar
calculators' precomputed tables (hundreds to thousands of entries) costs ~0.5 s per lookup.  This plug-in narrows the chain to the
window of indices the path condition can reach: it computes the exact minimum and maximum of i under the path condition (galloping + binary search from one model
value; every step is a SAT/UNSAT answer, so the window is deterministic) and drops the elements outside [min, max].  The
result is the same term as CrossHair's restricted to reachable entries; out-of-range indices still fork and raise as before."""
import z3
from crosshair import opcode_intercept as oi
from crosshair.statespace import context_statespace
from crosshair.tracers import NoTracing, ResumedTracing

STATS = {"windowed": 0, "full": 0, "queries": 0}
MIN_LEN = 512


class _Unknown(Exception):
    pass


def _min(v, floor, below):
    """min of S given v in S, S >= floor, below(m) = 'some x in S has x < m'"""
    if not below(v):
        return v
    b, step = v, 1                          # below(b) holds
    while True:
        a = max(floor, b - step)
        if not below(a):
            break
        b, step = a, step * 2
    while b - a > 1:                        # below(a) false, below(b) true
        mid = (a + b) // 2
        if below(mid):
            b = mid
        else:
            a = mid
    return a


def _max(v, ceil, above):
    if not above(v):
        return v
    a, step = v, 1                          # above(a) holds
    while True:
        b = min(ceil, a + step)
        if not above(b):
            break
        a, step = b, step * 2
    while b - a > 1:                        # above(a) true, above(b) false
        mid = (a + b) // 2
        if above(mid):
            a = mid
        else:
            b = mid
    return b


def install():
    orig = oi.reachable_sequence_pairs
    if getattr(orig, "_symx", False):
        return

    def reachable(key, container):
        n = len(container)
        var = getattr(key, "var", None)
        if n < MIN_LEN or var is None or not z3.is_int(var):
            return orig(key, container)
        space = context_statespace()
        solver = space.solver
        inside = z3.And(var >= -n, var <= n - 1)
        STATS["queries"] += 1
        if str(solver.check(inside)) != "sat":
            STATS["full"] += 1
            return orig(key, container)
        v = solver.model().eval(var, model_completion=True).as_long()

        def possible(cond):
            STATS["queries"] += 1
            r = str(solver.check(cond))
            if r == "unknown":
                raise _Unknown()
            return r == "sat"

        # exact minimum and maximum of the index within [-n, n - 1] (deterministic: they do not depend on the model value, which only
        # seeds the galloping search); indices outside that range raise IndexError in CrossHair's own encoding, untouched here
        try:
            lo = _min(v, -n, lambda m: possible(z3.And(inside, var < m)))
            hi = _max(v, n - 1, lambda m: possible(z3.And(inside, var > m)))
        except _Unknown:
            STATS["full"] += 1
            return orig(key, container)
        if hi - lo + 1 > n // 2:
            STATS["full"] += 1
            return orig(key, container)
        STATS["windowed"] += 1
        pairs = [(i, container[i]) for i in range(max(0, lo), hi + 1)]
        pairs += [(j, container[j + n]) for j in range(lo, min(hi, -1) + 1)]
        return pairs
    reachable._symx = True
    oi.reachable_sequence_pairs = reachable
