"""strcmp plug-in: ordering comparisons between two ONE-character strings, at least one symbolic.

CrossHair compares symbolic strings lexicographically with a fork per element (`equal` / `differ`), so the idiom
`"0" <= c <= "9"` on a symbolic character forks three ways per character (c == "0", in between, c == "9") - 3**k paths for a
k-digit field.  For one-character operands the comparison IS the comparison of the two code points: this plug-in returns that as
one symbolic boolean (no fork).  Longer operands fall through to CrossHair's own implementation."""
import operator

from crosshair.libimpl.builtinslib import LazyIntSymbolicStr
from crosshair.tracers import NoTracing, ResumedTracing

STATS = {"char_compares": 0}


def _single(x):
    """the code point (int or SymbolicInt) of a one-character operand whose length is concretely known, else None"""
    if isinstance(x, str):
        return ord(x) if len(x) == 1 else None
    if isinstance(x, LazyIntSymbolicStr):
        cps = x._codepoints
        if type(cps) in (list, tuple) and len(cps) == 1:
            return cps[0]
    return None


def install():
    if getattr(LazyIntSymbolicStr, "_symx_strcmp", False):
        return
    for name, op in (("__lt__", operator.lt), ("__le__", operator.le), ("__gt__", operator.gt), ("__ge__", operator.ge)):
        orig = getattr(LazyIntSymbolicStr, name)

        def make(orig, op):
            def method(self, other):
                with NoTracing():
                    a, b = _single(self), _single(other)
                    if a is not None and b is not None:
                        STATS["char_compares"] += 1
                        with ResumedTracing():
                            return op(a, b)
                return orig(self, other)
            return method
        setattr(LazyIntSymbolicStr, name, make(orig, op))
    LazyIntSymbolicStr._symx_strcmp = True
