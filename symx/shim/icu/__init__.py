"""Minimal stand-in for PyICU when libicu is not loadable: enough for the invariant culture."""
class Locale:
    def __init__(self, name="en_US_POSIX"): self._name = name
    @staticmethod
    def getDefault(): return Locale("en_US_POSIX")
    @staticmethod
    def getAvailableLocales(): return {}
    def getName(self): return self._name
    def __getattr__(self, item): raise RuntimeError("icu shim: locale data unavailable")
class DateFormat:
    kShort = 3; kLong = 1
    @staticmethod
    def createTimeInstance(*a): raise RuntimeError("icu shim")
class DecimalFormatSymbols:
    kPlusSignSymbol = 0
    def __init__(self, *a): raise RuntimeError("icu shim")
class DateFormatSymbols:
    def __init__(self, *a): raise RuntimeError("icu shim")
class DateTimePatternGenerator:
    @staticmethod
    def createInstance(*a): raise RuntimeError("icu shim")
