"""slicer: consecutive statements of a straight-line function of the repository, re-compiled as a function of their free variables.

Some kernels (the Hebrew molad arithmetic) are one long chain of nested divisions which the solver cannot relate to a reference
in a single query, while each link of the chain is easy.  `slice_function` takes the function's CURRENT source (inspect/ast, on
every run), selects the statements from the one assigning `first` to the one before the one assigning `stop` (or to the end,
keeping the original return), and compiles them in the function's own globals as `def _slice(<params>): ...; return (<returns>)`.
The statements are untouched, so a change to any of them is a change to the slice that executes; the lemma that uses slices also
checks concretely that their composition equals the real function (lemma-side witness replay)."""
import ast
import inspect
import textwrap


def _target(st):
    if isinstance(st, ast.Assign) and len(st.targets) == 1 and isinstance(st.targets[0], ast.Name):
        return st.targets[0].id
    if isinstance(st, ast.AnnAssign) and isinstance(st.target, ast.Name):
        return st.target.id
    return None


def slice_function(func, first, stop, params, returns=None):
    f = getattr(func, "__func__", func)
    src = textwrap.dedent(inspect.getsource(f))
    fdef = ast.parse(src).body[0]
    body = [st for st in fdef.body if not (isinstance(st, ast.Expr) and isinstance(st.value, ast.Constant) and isinstance(st.value.value, str))]
    names = [_target(st) for st in body]
    for st in body[:-1]:
        if not isinstance(st, (ast.Assign, ast.AnnAssign)):
            raise LookupError(f"{f.__qualname__}: not straight-line code ({type(st).__name__})")

    def idx(name):
        hits = [i for i, n in enumerate(names) if n == name]
        if len(hits) != 1:
            raise LookupError(f"{f.__qualname__}: expected exactly one assignment to {name!r}, found {len(hits)}")
        return hits[0]
    i0 = idx(first) if first else 0
    i1 = idx(stop) if stop else len(body)
    stmts = body[i0:i1]
    if returns is not None:
        stmts = stmts + [ast.Return(value=ast.Tuple(elts=[ast.Name(id=r, ctx=ast.Load()) for r in returns], ctx=ast.Load())
                                    if len(returns) > 1 else ast.Name(id=returns[0], ctx=ast.Load()))]
    elif not isinstance(stmts[-1], ast.Return):
        raise LookupError(f"{f.__qualname__}: slice to the end does not finish with a return")
    new = ast.FunctionDef(name="_slice", args=ast.arguments(posonlyargs=[], args=[ast.arg(arg=p) for p in params], kwonlyargs=[], kw_defaults=[],
                                                            defaults=[]), body=stmts, decorator_list=[], type_params=[])
    mod = ast.Module(body=[new], type_ignores=[])
    ast.fix_missing_locations(mod)
    ns = dict(f.__globals__)
    exec(compile(mod, f"<slice of {f.__qualname__}>", "exec"), ns)
    fn = ns["_slice"]
    fn.__slice_source__ = ast.unparse(new)
    return fn
