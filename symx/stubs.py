"""Environment stubs and the standard plug-in set.  Every stub here is part of the claim of the lemmas that use it.

`register_patch` replacements are only active inside CrossHair's `Patched()` context, i.e. during symbolic exploration:
a concrete replay of a harness in plain CPython runs the unpatched repository functions.
"""
from __future__ import annotations

from crosshair.core import register_patch

from .plugins import arith, bitops, fmtint, fpexact, seqwindow, strcmp

STUBS_IN_FORCE: list[str] = []


def install_plugins(fmt=True):
    bitops.install()
    arith.install()
    STUBS_IN_FORCE.append("plugin:bitops (exact LIA encodings of | & ^ with solver-checked side conditions)")
    STUBS_IN_FORCE.append("plugin:arith (fork-free div/mod by positive constants)")
    seqwindow.install()
    strcmp.install()
    STUBS_IN_FORCE.append("plugin:strcmp (ordering of two one-character strings = ordering of their code points, fork-free)")
    STUBS_IN_FORCE.append("plugin:seqwindow (symbolic index into a long concrete table: if-then-else chain restricted to the solver-proved reachable index window)")
    fpexact.install()
    STUBS_IN_FORCE.append("plugin:fpexact (int(a / c) for |a/c| < 2**31, c < 2**20 as exact truncation; obligation solver-checked)")
    if fmt:
        fmtint.install()
        STUBS_IN_FORCE.append("plugin:fmtint (symbolic decimal rendering of ints: models CPython int.__format__)")


_done = set()


def stub_tzd():
    if "tzd" in _done:
        return
    _done.add("tzd")
    from pyoda_time.utility import _csharp_compatibility as cc
    arith._REAL["tzd"] = cc._towards_zero_division
    register_patch(cc._towards_zero_division, arith.tzd)
    STUBS_IN_FORCE.append("model:_towards_zero_division = exact truncating division (obligation |x| < 10**26 solver-checked per call; "
                          "conformance-checked against the real Decimal implementation each run)")


def stub_range_message():
    if "range" in _done:
        return
    _done.add("range")
    from pyoda_time.utility._preconditions import _Preconditions

    def _throw(param_name, value, lo, hi):
        raise ValueError("out of range")

    register_patch(_Preconditions._throw_argument_out_of_range_exception, _throw)
    STUBS_IN_FORCE.append("stub:_Preconditions._throw_argument_out_of_range_exception raises ValueError with a constant message")


def stub_parse_messages():
    """ParseResult._for_invalid_value formats cursor/text eagerly into its message; keep type + flags, drop the message."""
    if "parse" in _done:
        return
    _done.add("parse")
    from pyoda_time.text._parse_result import ParseResult
    from pyoda_time.text._unparsable_value_error import UnparsableValueError

    def _prov():
        return UnparsableValueError("invalid value")

    def _for_invalid_value(cls, cursor_or_exception_provider, *args):
        return cls._ctor(exception_provider=_prov, continue_with_multiple=True)

    register_patch(ParseResult._for_invalid_value.__func__, _for_invalid_value)

    def _for_invalid_value_post_parse(cls, text, format_string, *args):
        return cls._ctor(exception_provider=_prov, continue_with_multiple=True)

    register_patch(ParseResult._for_invalid_value_post_parse.__func__, _for_invalid_value_post_parse)
    STUBS_IN_FORCE.append("stub:ParseResult._for_invalid_value[_post_parse] keep failure kind and flags, constant message "
                          "(message templates are arity-linted concretely)")


def standard(fmt=True):
    """The stub/plug-in set used by almost every lemma."""
    install_plugins(fmt=fmt)
    stub_tzd()
    stub_range_message()
    import os
    if os.environ.get("VERIF_FLOATPIN", "1") == "1":     # (VERIF_FLOATPIN=0: CrossHair's own real-number model of int -> float)
        from symx.plugins import floatpin
        if not floatpin._installed:
            floatpin.install()
            STUBS_IN_FORCE.append("model:floatpin - a symbolic int that meets floating point is pinned to a solver-chosen adversarial value "
                                  "(rest of that branch UNKNOWN); never reached by integer-only code")


class Hang(Exception):
    """A reader kept asking an exhausted stream for more: the real code would spin for ever (raised in both execution modes)."""


class Stream:
    """List-backed binary stream: keeps written/read bytes symbolic (io.BytesIO is a C boundary).  Counts consecutive reads at end of
    data: more than EOF_READ_LIMIT of them is reported as a hang."""

    EOF_READ_LIMIT = 64

    def __init__(self, buf=None):
        self.buf = list(buf or [])
        self.pos = 0
        self.eof_reads = 0

    def write(self, b):
        for x in b:
            self.buf.append(x)
        return len(b)

    def read(self, n=-1):
        avail = len(self.buf) - self.pos
        if avail <= 0:
            self.eof_reads += 1
            if self.eof_reads > self.EOF_READ_LIMIT:
                raise Hang(f"{self.eof_reads} consecutive reads at end of data")
            return []
        self.eof_reads = 0
        if n is None or n < 0 or n >= avail:
            take = avail
        else:
            # a symbolic count smaller than what is left: fork on its value (a slice bound would be realised over its whole domain)
            take = 0
            for k in range(avail):
                if n == k:
                    take = k
                    break
        out = self.buf[self.pos:self.pos + take]
        self.pos += take
        return out

    def tell(self):
        return self.pos


class Deadlock(Exception):
    pass


class MonitorLock:
    """threading.Lock stand-in that raises on re-acquisition by its holder (a real one would block forever inside C)."""

    instances: list = []

    def __init__(self):
        self.held = False
        self.acquisitions = 0
        MonitorLock.instances.append(self)

    def acquire(self, *a, **k):
        if self.held:
            raise Deadlock("lock re-acquired by its holder")
        self.held = True
        self.acquisitions += 1
        return True

    def release(self):
        if not self.held:
            raise RuntimeError("release of an unheld lock")
        self.held = False

    def locked(self):
        return self.held

    def __enter__(self):
        self.acquire()
        return self

    def __exit__(self, *a):
        self.release()
