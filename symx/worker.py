"""Entry point of the per-lemma worker process (keeps symx.lemma importable under its own name)."""
import sys

from symx import lemma

if __name__ == "__main__":
    lemma.main(sys.argv[1:])
