#!/usr/bin/env python3
"""Run the pinned baseline command (guard off) and compare with BASELINE.json's stable_pass list."""
import json, subprocess, sys, tempfile, os, xml.etree.ElementTree as ET
b = json.load(open("/root/.vp/BASELINE.json"))
with tempfile.TemporaryDirectory() as d:
    x = os.path.join(d, "r.xml")
    cmd = b["cmd"].replace("<file>", x)
    subprocess.run(cmd, shell=True, stdout=subprocess.DEVNULL, stderr=subprocess.DEVNULL)
    passed = set()
    for tc in ET.parse(x).getroot().iter("testcase"):
        if not list(tc):
            passed.add(f"{tc.get('classname')}::{tc.get('name')}")
want = set(b["stable_pass"])
norm = lambda s: s.replace("::", ".")
p2 = {norm(x) for x in passed}
missing = [w for w in want if norm(w) not in p2]
print("passed", len(passed), "baseline", len(want), "missing", len(missing))
for m in missing[:20]: print("  MISSING", m)
sys.exit(1 if missing else 0)
