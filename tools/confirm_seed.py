#!/usr/bin/env python3
"""confirm_seed.py <PROP> <worktree> <name> "<what it needs to manifest>"

Confirms a seeded change produced by an independent sub-agent: (1) the pinned test suite passes unchanged with it, (2) the
demonstration fails with it and passes without it, then stores it under /verif/seeded/<name>/ and (3) runs the property's
quick check against /repo with the change applied (undone straight afterwards) and records which lemmas report it."""
import json
import os
import shutil
import subprocess
import sys
import tempfile
import xml.etree.ElementTree as ET

prop, wt, name, needs = sys.argv[1:5]
tier = sys.argv[5] if len(sys.argv) > 5 else "quick"
only = sys.argv[6] if len(sys.argv) > 6 else None
VERIF = os.path.dirname(os.path.dirname(os.path.abspath(__file__)))
ENV = dict(os.environ, LD_LIBRARY_PATH="/root/miniconda/lib")


def suite(path):
    b = json.load(open("/root/.vp/BASELINE.json"))
    with tempfile.TemporaryDirectory() as d:
        x = os.path.join(d, "r.xml")
        cmd = b["cmd"].replace("<file>", x).replace("cd /repo", "cd " + path)
        subprocess.run(cmd, shell=True, stdout=subprocess.DEVNULL, stderr=subprocess.DEVNULL)
        passed = {f"{tc.get('classname')}::{tc.get('name')}" for tc in ET.parse(x).getroot().iter("testcase") if not list(tc)}
    want = {w.replace("::", ".") for w in b["stable_pass"]}
    missing = [w for w in want if w not in {p.replace("::", ".") for p in passed}]
    return len(passed), len(missing)


def sh(cmd, cwd=None, env=None):
    return subprocess.run(cmd, shell=True, cwd=cwd, env=env, capture_output=True, text=True)


demo = [f for f in os.listdir(wt) if f.startswith("demo_") and f.endswith(".py")][0]
sh("git diff -- pyoda_time > patch.diff", cwd=wt)
passed_with, missing_with = suite(wt)
r_with = sh(f"/venv/bin/python {demo}", cwd=wt, env=ENV)
sh("git apply -R patch.diff", cwd=wt)          # (git stash is shared between worktrees: never use it here)
r_without = sh(f"/venv/bin/python {demo}", cwd=wt, env=ENV)
sh("git apply patch.diff", cwd=wt)
ok = missing_with == 0 and r_with.returncode != 0 and r_without.returncode == 0
print(f"suite with change: {passed_with} passed, {missing_with} baseline tests missing; demo with change rc={r_with.returncode}, without rc={r_without.returncode} -> {'CONFIRMED' if ok else 'REJECTED'}")
if not ok:
    print(r_with.stdout[-500:], r_with.stderr[-800:], r_without.stdout[-300:], r_without.stderr[-800:])
    sys.exit(1)
dst = os.path.join(VERIF, "seeded", name)
os.makedirs(dst, exist_ok=True)
shutil.copy(os.path.join(wt, "patch.diff"), os.path.join(dst, "patch.diff"))
shutil.copy(os.path.join(wt, demo), os.path.join(dst, demo))
# run the check against /repo with the change applied (or, when CONFIRM_VIA_WORKTREE=1 because another run is using /repo, against the
# scratch worktree - which has the change applied - through VERIF_REPO)
via_wt = os.environ.get("CONFIRM_VIA_WORKTREE") == "1"
cmd = f"./check {prop} --tier {tier} --no-evidence" + (f" --only '{only}'" if only else "")
if via_wt:
    c = sh(cmd, cwd=VERIF, env=dict(os.environ, VERIF_REPO=wt))
    applies = True
else:
    ap = sh(f"git -C /repo apply {dst}/patch.diff")
    applies = ap.returncode == 0
    if applies:
        try:
            c = sh(cmd, cwd=VERIF)
        finally:
            sh("git -C /repo checkout -- .")
    else:
        print("patch does not apply to /repo HEAD:", ap.stderr)
if not applies:
    detect = {"applies": False}
else:
    viol = [l.strip() for l in c.stdout.splitlines() if l.strip().startswith("lemma=") or l.strip().startswith("premise=")]
    detect = {"applies": True, "check_cmd": cmd, "run_against": (f"scratch worktree {wt} via VERIF_REPO" if via_wt else "/repo with the patch applied, undone afterwards"),
              "exit_code": c.returncode, "violations": viol[:12]}
    print("check exit", c.returncode, "violations:", *viol[:6], sep="\n  ")
meta = {"property": prop, "needs_to_manifest": needs, "demo": demo,
        "confirmed": {"suite_passed_with_change": passed_with, "baseline_tests_missing_with_change": missing_with,
                      "demo_rc_with_change": r_with.returncode, "demo_rc_without_change": r_without.returncode,
                      "demo_failure": (r_with.stderr or r_with.stdout)[-400:]},
        "ran": [f"baseline suite in scratch worktree {wt}", f"demo with/without change (git apply -R / git apply)", detect.get("check_cmd", "")],
        "detected_by_check": detect}
json.dump(meta, open(os.path.join(dst, "meta.json"), "w"), indent=1)
print("stored", dst)
