#!/usr/bin/env python3
"""Emit the 'as built' per-property part of DESIGN.md from the lemma registry, MANIFEST generator, known findings and seeded changes.
usage: .venv/bin/python tools/gen_design_tables.py > /tmp/design_part.md   (run through ./check's environment: PYTHONPATH=/verif)"""
import glob
import importlib
import json
import os
import sys

HERE = os.path.dirname(os.path.dirname(os.path.abspath(__file__)))
sys.path.insert(0, HERE)
from symx import env  # noqa: E402

env.bootstrap()
from symx import lemma as L  # noqa: E402

sys.path.insert(0, os.path.join(HERE, "tools"))
import gen_manifest as GM  # noqa: E402

props = {json.loads(l)["id"]: json.loads(l) for l in open(os.path.join(HERE, "properties.jsonl"))}
known = json.load(open(os.path.join(HERE, "known_findings.json")))["findings"]
out = []
for pid in sorted(props):
    L.REGISTRY.clear()
    for m in [k for k in list(sys.modules) if k.startswith("props.")]:
        del sys.modules[m]
    try:
        importlib.import_module(f"props.{pid.lower()}")
    except ModuleNotFoundError:
        continue
    out.append(f"### {pid} — {props[pid]['title']}\n")
    if pid in GM.CLAIMED:
        _lvl, what, outside = GM.CLAIMED[pid]
        out.append(f"*Checked:* {what}\n\n*Outside the claim:* {outside}\n")
    out.append("| lemma | quick / thorough instances | bounds (what HOLDS means) |\n|---|---|---|")
    for lem in L.REGISTRY.values():
        nq = len(lem.instances("quick", 0)) if "quick" in lem.tiers else 0
        nt = len(lem.instances("thorough", 0)) if "thorough" in lem.tiers else 0
        kind = "premise (concrete data check)" if lem.premise else ("SMT encoding from source" if lem.smt else "")
        b = (lem.bounds or lem.doc or "").replace("\n", " ").replace("|", "\\|")
        out.append(f"| `{lem.name}`{' — ' + kind if kind else ''} | {nq} / {nt} | {b} |")
    ks = [k for k in known if k["property"] == pid]
    if ks:
        out.append("\nFindings recorded for this property:\n")
        for k in ks:
            out.append(f"* `{k['id']}` ({k['status']}{' ' + k.get('commit', '') if k['status'] == 'fixed' else ''}): {k['what']}")
    seeds = sorted(glob.glob(os.path.join(HERE, "seeded", pid + "-*", "meta.json")))
    if seeds:
        out.append("\nSeeded changes (made by independent sub-agents; each passes the 393 baseline tests) and the lemmas that report them:\n")
        for s in seeds:
            m = json.load(open(s))
            det = m.get("detected_by_check", {})
            lem = sorted({v.split("lemma=")[1].split(" ")[0].split("[")[0] for v in det.get("violations", []) if "lemma=" in v}
                         | {"premise " + v.split("premise=")[1].split("[")[0] for v in det.get("violations", []) if "premise=" in v})
            out.append(f"* `{os.path.basename(os.path.dirname(s))}` — needs: {m.get('needs_to_manifest', '')}. Reported by `{det.get('check_cmd', '')}` "
                       f"(exit {det.get('exit_code')}): {', '.join(lem) if lem else 'NOT reported'}.")
    out.append("")
text = "\n".join(out)
if "--update" in sys.argv:
    dp = os.path.join(HERE, "DESIGN.md")
    d = open(dp).read()
    a = d.index("<!-- BEGIN GENERATED")
    a = d.index("\n", a) + 1
    b = d.index("<!-- END GENERATED -->")
    open(dp, "w").write(d[:a] + text + "\n" + d[b:])
    print("DESIGN.md updated", file=sys.stderr)
else:
    print(text)
