#!/usr/bin/env python3
"""Regenerate MANIFEST.json from the table below (kept in one place so that it is always schema-valid)."""
import json
import os

HERE = os.path.dirname(os.path.dirname(os.path.abspath(__file__)))
TECH = "bounded symbolic execution of the real Python code (CrossHair core + z3), lemma decomposition, concrete replay"
NOTE = ("Trusted base: CPython semantics of int/str/list as modelled by CrossHair 0.0.110, z3 5.1.0, the exact plug-in rewrites "
        "(bit ops, div/mod, int rendering; self-tested), and the stubs listed in the evidence file. HOLDS is claimed per lemma only "
        "when the path tree is exhausted with every path confirmed inside the lemma's stated bounds; INCONCLUSIVE lemmas are listed "
        "and never counted as discharged.")

# id -> (design section, claim text, extra note)   — only properties with a built check appear here
CLAIMED = {
    "C03": ("4/C03", "Every Duration/Instant/Offset factory, operator, comparison and component accessor is executed symbolically "
            "over its full documented integer range (and beyond it for the raise-don't-wrap clause) against exact integer "
            "arithmetic on total nanoseconds; all paths exhausted per lemma.", "float arguments and total_* float accessors are outside the claim"),
}
CLAIMED["C01"] = ("4/C01", "Per calculator: year-length recurrence, day->year (estimate-and-correct loop, every day), day-of-year<->month/day, "
                  "month-start sums, (y,m,d)->day number, validation (accept iff valid), ordering, bit-packing, range rejection, ISO fast path, eras; "
                  "full year range for Gregorian/ISO, Julian, Coptic, Um Al Qura and Islamic year-level lemmas; seeded 180-year windows "
                  "(all windows in thorough) for Persian x3, Hebrew x2, Badi with year functions tabulated from the real code; the implication "
                  "lemmas => round trip is itself discharged by z3.", "windows not reached by a run are outside that run's claim; three Badi year-table defects are listed as known findings")
CLAIMED["C14"] = ("4/C14", "Real writer -> list-backed stream -> real reader round trips for counts (all ints), signed counts (int32), "
                  "milliseconds (+-1 day, accepted range exact), offsets, fixed-width words (modulo semantics), transitions (every pair of "
                  "tick-aligned instants, partitioned by the documented encoding: hours-since-previous / minutes-since-1800 / raw), markers, "
                  "pooled strings, inline UTF-8 strings, _ZoneYearOffset (all fields); canonical compact forms of milliseconds and transitions "
                  "asserted on the bytes written; the literal re-encoding of every rule-based zone of both database files is a labelled concrete premise.",
                  "composite lemmas use primitive channels whose contracts are the primitive lemmas; recurrence, alternating-map, dictionary and three-period precalculated-zone round trips use primitive / transition channels; a recurrence with from_year <= 0 is read back as INT_MIN (known finding)")
CLAIMED["C09"] = ("4/C09", "plus_days/plus_weeks: the real _FixedLengthDatePeriodField.add over an abstract calendar (any adjacent year "
                  "lengths >= the measured shortest real year, any month/day-of-year position, |n| <= 10**7) plus per-calendar fast/slow path lemmas "
                  "in (year, day-of-year) coordinates; plus_months/plus_years vs the (year*M + month) reference with day clamping and overflow, "
                  "months-between maximality, Period.between for all 63 time-unit subsets over all pairs of times, YearMonth between, "
                  "normalize / to_duration over the fixed-length total.",
                  "LocalDate/LocalDateTime between with multi-unit date subsets and Hebrew/Badi MONTH arithmetic are not claimed (Hebrew year changes are: hebrew_set_year); per-calendar lemmas use seeded windows in quick")
CLAIMED["C10"] = ("4/C10", "Every LocalTime/OffsetTime accessor over all nanoseconds-of-day (and all offsets); all seven _TimePeriodField additions "
                  "(wrap and whole-day carry) for |amount*unit| <= 10**24 ns; every factory/constructor accepts exactly its documented range; "
                  "LocalDateTime.plus_<unit> over an abstract day-number date (contract C09.plusdays); LocalTime +/- Period per unit; ordering.",
                  "float division on symbolic ints is not modelled as real arithmetic: it is concretised on a solver-chosen adversarial dividend (just "
                  "below a multiple of the divisor, beyond 2**55), the rest of that branch is UNKNOWN")
CLAIMED["C19"] = ("4/C19", "FakeClock: every sequence of 2 (quick) / 3 (thorough) operations out of 12 (read, advance, reset, set/get "
                  "auto-advance, seven advance_<unit>) with symbolic signed amounts against the trivial model, partitioned by operation prefix; "
                  "monitor locks show every operation completes (no self-deadlock) and releases the lock; three reads with any non-zero "
                  "auto-advance are distinct; SystemClock over an arbitrary time_ns; ZonedClock getters over a stub clock, fixed zones and DayCalendar.",
                  "real thread interleavings are outside the claim (no thread model in this technique family): mutual exclusion is argued from the "
                  "lock discipline observed on every sequential path")
CLAIMED["C20"] = ("4/C20", "The data layer's two entry points (_TzdbStreamData._from_stream for the container, create_zone for a zone's payload; "
                  "TzdbDateTimeZoneSource.from_stream / for_id call exactly these) over SYMBOLIC damaged bytes: two consecutive bytes of a real "
                  "zone field replaced by every pair of values (body of small zones; tail flag and yearly rules of zones with a recurring tail), "
                  "a real zone field truncated at every length, every zone payload / field payload of <= 3 (thorough 4) bytes behind each "
                  "field id with and without a string pool, every field id / length varint / amount of data present, every header truncation: "
                  "the call returns or raises InvalidPyodaDataError; a reader that keeps reading an exhausted stream is reported as a hang.",
                  "k = 2 substituted bytes (the property's fault space goes to k = 4) and not every position: damage in the middle of a long "
                  "transition chain is outside the bounds; insertions/deletions only as truncation; memory exhaustion is not modelled; the "
                  "second database file under tests/ is not loaded")
CLAIMED["C02"] = ("4/C02", "The calculators' leap rule, year length, year start, month count / length / offset and day number against the PUBLISHED "
                  "arithmetic (Dershowitz-Reingold fixed dates, published leap-year lists, epochs derived from their Julian/Gregorian dates) for "
                  "every year of the range: ISO, Gregorian, Julian, Coptic closed forms in one query each; 8 tabular Islamic variants per position "
                  "of the 30-year cycle; Persian simple and arithmetic (from 475) tables in 512-year windows; ISO weekday; ISO against the pure-Python "
                  "standard library (_pydatetime._ymd2ord/_ord2ymd executed symbolically); Hebrew: the molad arithmetic cut from the current source "
                  "into three statement groups, each equal to the classical definition (19-year cycle, BaHaRaD + lunations, four postponements) for "
                  "every input, their composition, the year-cache entry over an abstract elapsed-days function, and both month numberings over an "
                  "abstract cache entry.",
                  "observed at the calculator level (LocalDate composes these through C01's lemmas); Hebrew year-length legality uses year kinds "
                  "tabulated from the real code per 180-year window; Persian arithmetic before 475, Persian astronomical, Um Al Qura and Badi have no "
                  "published arithmetic and are outside the property; quick runs seeded subsets of months / cycle positions / windows")
CLAIMED["C06"] = ("4/C06", "Against an INDEPENDENT interpreter of Tzdb.nzd written from the format description (props/nzdref.py, plain ints and "
                  "plain calendar arithmetic): every reader primitive (varint count, zig-zag, compact milliseconds / offset, transition "
                  "markers / hour deltas / minute counts / raw ticks, pooled strings) and the yearly-rule decoder on every byte string of <= 4 "
                  "(thorough 5) bytes; the yearly-rule evaluator for every rule shape and every year (century windows) and the rule offset per "
                  "mode; the provider's cached zone at EVERY instant within 40 days of reference transitions (stored and rule-generated, "
                  "including transitions on cache-block boundaries); fixed-offset ids UTC+/-hh[:mm[:ss]] for all two-digit fields.",
                  "the walk of the whole file (id list, aliases, all 61 755 intervals to 2200, validate()) is a concrete premise over finite data, "
                  "not a solver verdict; windows and rule instances are seeded subsets in quick; the second database file under tests/ is not "
                  "interpreted; rule-generated transitions are compared up to 2100 symbolically (to 9999 for every 10th zone in the thorough premise)")
CLAIMED["C11"] = ("4/C11", "Real OffsetDateTime/OffsetDate/OffsetTime/Instant code over the DayCalendar abstraction (dates are day numbers; "
                  "contract C01 + C09): construction local = instant + offset, to_instant inverse, with_offset (both double day carries), "
                  "with_calendar, +/- Duration in all six spellings (instant moves exactly; offset and calendar retained), plus_<unit>, "
                  "value - value = instant difference across offsets and calendars, date/time adjusters, OffsetDate/OffsetTime recombination.",
                  "ZonedDateTime arithmetic over a symbolic zone over a symbolic two-interval zone is the shared lemma zdt_plus_duration (props/zdt.py, also declared by C05); real-calendar retention lemma in thorough only")
CLAIMED["C16"] = ("4/C16", "All 49 regular and 21 BCL-style week-year rules over an ABSTRACT calendar (arbitrary year start, arbitrary lengths "
                  "353..385 of five adjacent years): round trip of (week-year, week, weekday) for every day of the year, week within the reported "
                  "weeks, week-year within +-1; the same with the calendar range ending exactly at the year's end/start (seeded partitions in quick, "
                  "all 140 in thorough); weeks advance every 7 days from the first day of week; the ISO rule against the ISO-8601 definition; "
                  "next/previous(/or-same) via abstract self; n-th weekday of month over 400-year ISO windows; real calendar range ends as a labelled premise.",
                  "stdlib isocalendar agreement is not a separate check: the ISO definition lemma plus C02's ISO day-of-week lemma imply it")
CLAIMED["C18"] = ("4/C18", "Real DateInterval over real LocalDate on the DayCalendar abstraction: length, membership (day and interval), "
                  "intersection, union (defined iff overlapping or adjacent), constructor rejection (reversed ends, mixed calendars), mixed-calendar "
                  "operations raise, iteration of short intervals; Interval over all instants incl. both unbounded ends (membership, has_start/"
                  "has_end, start/end/duration raising); YearMonth.to_date_interval on real ISO/Julian/Coptic.",
                  "day-number order = calendar order is C01.order; plus_days by contract C09")
CLAIMED["C05"] = ("4/C05", "Real DateTimeZone.map_local over a symbolic zone (2 and 3 real ZoneIntervals with arbitrary transition instants >= 3 "
                  "days apart and arbitrary wall offsets in +-18h) for every local instant: count, early/late intervals, the pair around a gap; "
                  "instant -> local -> map_local recovers the interval; the stock resolvers (strict, lenient, first, last) over every consistent "
                  "mapping; ZonedDateTime + Duration re-derives the offset; at_start_of_day (thorough). Local date-times are real LocalDateTime "
                  "values over DayCalendar.",
                  "the >= 3-day interval assumption is re-measured from the bundled tz database on every run (labelled premise); zones violating it are outside the claim")
CLAIMED["C13"] = ("4/C13", "Sequential histories: the generic year-start cache as one inductive step from an arbitrary valid slot state over an "
                  "abstract calculator (any aliasing year, or the invalid entry) plus the entry packing lemma; the caching zone-interval map over a "
                  "symbolic zone for ANY two queries hitting the same slot (same or aliasing period, either order) and a repeat; the "
                  "least-recently-added _Cache for every sequence of 4 lookups over 3 keys with a monitor lock; calendar singletons / year ranges "
                  "as a labelled premise.",
                  "the schedule dimension (interleavings of up to 16 threads) is OUTSIDE the claim: this technique family has no thread model for Python; "
                  "only the lock discipline on sequential paths is observed")
CLAIMED["C12"] = ("4/C12", "LocalDate ordering (all operators, compare_to, min/max, ==) against the day-number order on real calendars (full range or "
                  "seeded windows), Hebrew month order in both numberings, LocalDateTime/YearMonth/AnnualDate ordering, cross-calendar ordering raises, "
                  "unrelated types refused, OffsetDate/Time/DateTime and Period equality component-wise; hash consistency as normal-form equality "
                  "(solver) plus a source-level premise that __hash__ reads only fields __eq__ compares. Duration/Instant/Offset/LocalTime orderings "
                  "are lemmas of C03/C10, _YearMonthDay ordering and packing of C01; operand immutability is asserted inside the C03/C09/C10/C11 harnesses.",
                  "symbolic hashing is not executed (hash() realises); Interval/DateInterval equality is in C18")
CLAIMED["C04"] = ("4/C04", "Precalculated zones: binary search over a symbolic 3-period list with/without a stub tail (containment, clamping of the "
                  "first tail interval, period validation) and over the concrete period tables of real zones for every instant before the tail "
                  "(8 seeded zones in quick, all ids in thorough; abutting / maximal / wall = standard + savings / min-max facts per stored period "
                  "checked concretely); recurring tail: the alternating map over abstract recurrences, one infinite recurrence over an abstract "
                  "yearly rule in UTC/wall/standard frames for every instant of 4-year windows at both ends of time and around 2000; fixed zones; "
                  "ZoneInterval construction.",
                  "a single-query walk of a real recurring tail to year 9999 is out of reach (DESIGN 3.6b): the tail is claimed through altmap + "
                  "recurrence + the yearly-rule lemmas of C06; yearly-rule evaluation itself (_ZoneYearOffset) is under C06")
CLAIMED["C15"] = ("4/C15", "timedelta <-> Duration over timedelta's whole range (exact, round trip) and Duration -> timedelta truncation toward zero "
                  "with OverflowError exactly outside timedelta's range; time <-> LocalTime over all times; date/datetime through a contract "
                  "model of the stdlib types (ordinal + microsecond-of-day, OverflowError outside [1, 3652059]) injected into the repository "
                  "modules: from_date / to_date / from_naive_datetime / to_naive_datetime glue over the whole ordinal range, year-1 boundary; "
                  "Offset <-> timedelta (float by design) and the model's agreement with CPython as labelled concrete premises.",
                  "aware datetimes / Instant.to_datetime_utc are not claimed; ISO date <-> ordinal agreement is C02")
CLAIMED["C08"] = ("4/C08", "parse(s) for EVERY text (every Unicode character) up to the pattern's natural length + 1 (6..12 characters) under 12 offset/time/date/duration/date-time patterns; texts with the "
                  "pattern's separators and every numeric field rendered from a symbolic integer (valid and out-of-range values); the parse buckets "
                  "as units over every accumulated value (duration total, offset fields): a result object is always returned, successes carry valid "
                  "values, failures produce their error; create_with_invariant_culture for every pattern text of length <= 2 (3 in thorough) over "
                  "a 25-character pattern alphabet raises InvalidPatternError only.",
                  "invariant culture only; parse-failure message builders are stubbed (type and flags kept); ISO date-time texts beyond 10 characters only as numeric skeletons")
CLAIMED["C07"] = ("4/C07", "format -> parse with symbolic formatting (the produced text stays symbolic): every Offset under g, G, l and two custom "
                  "patterns (partitioned by sign and zero minute/second parts); every value of every single-field time and date pattern "
                  "(H HH m mm s ss fff..., M MM d dd uuuu yyyy); two-field time patterns incl. 12-hour + am/pm; built-in ISO time patterns "
                  "(zero fraction in quick, nanosecond fractions in thorough); ISO and custom three-field date patterns by year-digit count; "
                  "duration round-trip pattern (thorough); re-formatting every successfully parsed text of length <= 6 under delimited patterns.",
                  "invariant culture, ISO calendar only; the ~800 ICU cultures, text month/day names, eras and embedded patterns are outside the claim; "
                  "the digit-recomposition identity handed to the solver is an arithmetic fact (fmtint plug-in)")
CLAIMED["C17"] = ("4/C17", "Built-in ISO patterns against a reference ISO-8601 extended-format writer: LocalDatePattern.iso for every date in years "
                  "1..9999 (text equality and read-back), the extended and long ISO time patterns for every time of day (fraction without "
                  "trailing zeros / exactly nine digits; fractional partitions in thorough), the general offset patterns for every offset "
                  "(fixed two-digit fields, Z for zero), InstantPattern.extended_iso ending in Z (thorough). The reference writer's agreement "
                  "with CPython's isoformat/fromisoformat is a labelled concrete premise.",
                  "the standard library is represented by the reference writer (C isoformat cannot be executed symbolically); the fraction-scaling "
                  "float kernel of the parser is decided separately in z3's IEEE-754 theory for every digit string of 1..9 digits (parse_fraction_kernel)")
NOT_BUILT = {}

NA_REASON = "check not built yet in this round (design in DESIGN.md section 4); no claim is made"


def main():
    props = [json.loads(l) for l in open(os.path.join(HERE, "properties.jsonl"))]
    checks = []
    na = []
    for p in props:
        pid = p["id"]
        if pid in CLAIMED and os.path.exists(os.path.join(HERE, "props", pid.lower() + ".py")):
            ref, text, extra = CLAIMED[pid]
            checks.append({
                "property_id": pid,
                "quick_cmd": f"./check {pid} --tier quick",
                "thorough_cmd": f"./check {pid} --tier thorough",
                "evidence_file": f"evidence/{pid}.json",
                "replay_cmd_template": "./check --replay {path}",
                "engine": "symx",
                "level_claimed": {"category": "model_checking", "text": text, "design_ref": f"DESIGN.md section {ref}"},
                "level_note": NOTE + (" " + extra if extra else ""),
                "technique": TECH,
            })
        else:
            na.append({"property_id": pid, "reason": NOT_BUILT.get(pid, NA_REASON)})
    m = {
        "version": 1,
        "setup_cmd": "./setup.sh",
        "hooks": {
            "guard": "PYODA_TIME_VERIF",
            "enable": "none needed: every stub, model and abstract environment is installed at run time from /verif "
                      "(crosshair.register_patch / attribute injection); /repo carries no instrumentation",
            "baseline_off_cmd": "cd /repo && /venv/bin/python -m pytest -ra -q -p no:cacheprovider --timeout=900 --continue-on-collection-errors",
            "source_commits": [],
            "add_only": True,
        },
        "engines": [{"name": "symx", "path": "symx/", "serves_properties": [c["property_id"] for c in checks],
                     "kind_free_text": "own exploration driver over CrossHair 0.0.110's symbolic-execution core and z3; one worker process "
                                       "per lemma instance, 16-way; counterexamples and confirmed-path witnesses replayed concretely"}],
        "checks": checks,
        "not_applicable": na,
        "notes": "All checks: ./check <ID> --tier quick|thorough; honours VERIF_SEED/VERIF_TIER; exit 0/1/3 (3 = harness error). "
                 "Known findings: known_findings.json.",
    }
    json.dump(m, open(os.path.join(HERE, "MANIFEST.json"), "w"), indent=1)
    try:
        import jsonschema
        jsonschema.validate(m, json.load(open("/root/.vp/MANIFEST.schema.json")))
        print("MANIFEST.json valid;", len(checks), "checks,", len(na), "not claimed")
    except ImportError:
        print("written (jsonschema unavailable)")


if __name__ == "__main__":
    main()
